"""Simulator core: seeded chooser, violation type, trace/digest/reach metrics, discrete-event queue.

Everything a run decides is drawn from one `Chooser` whose state is a pure function of
(VERIF_SEED, world, property, run index).  A run first *generates* a plan (a JSON-able dict) from the
chooser and then *executes* the plan with a deterministic interpreter; the plan is the replay file.
Nothing in this module reads a real clock, real randomness, `id()` or `hash()`.
"""
import hashlib
import heapq
import json
import random


class Violation(Exception):
    """A property violation observed by an oracle.

    signature identifies the specific failing oracle/site so that known-findings can match exactly one
    kind of failure: "<prop>/<oracle>/<detail>".
    """

    def __init__(self, prop, oracle, detail, msg):
        super().__init__(f"{prop}/{oracle}/{detail}: {msg}")
        self.prop = prop
        self.oracle = oracle
        self.detail = detail
        self.msg = msg

    @property
    def signature(self):
        return f"{self.prop}/{self.oracle}/{self.detail}"


class HarnessError(Exception):
    """The machinery itself is broken (reference disagreement with itself, impossible state...)."""


class SimDeadlock(BaseException):
    """Raised inside a blocking read when no event can ever deliver the awaited bytes.

    Derives from BaseException so that library code with `except Exception` cannot swallow it.
    """


class SimHang(BaseException):
    """Raised by the runner's CPU-time alarm (ITIMER_VIRTUAL) when one run does not come back (an operation of the library that never
    returns). The budget is far above the CPU cost of any legitimate run and independent of machine load; the report is confirmed by
    replaying in a fresh interpreter."""


class Chooser:
    """Seeded PRNG; one per run. All generation-time choices go through it."""

    def __init__(self, material):
        if isinstance(material, str):
            material = material.encode()
        self.material = material
        self._r = random.Random(int.from_bytes(hashlib.sha256(material).digest(), "big"))
        self.draws = 0

    def sub(self, tag):
        return Chooser(self.material + b"/" + str(tag).encode())

    def randrange(self, a, b=None):
        self.draws += 1
        return self._r.randrange(a, b) if b is not None else self._r.randrange(a)

    def randint(self, a, b):
        self.draws += 1
        return self._r.randint(a, b)

    def random(self):
        self.draws += 1
        return self._r.random()

    def chance(self, p):
        return self.random() < p

    def choice(self, seq):
        self.draws += 1
        return seq[self._r.randrange(len(seq))]

    def weighted(self, pairs):
        """pairs: list of (item, weight)"""
        total = sum(w for _, w in pairs)
        x = self.random() * total
        acc = 0.0
        for item, w in pairs:
            acc += w
            if x < acc:
                return item
        return pairs[-1][0]

    def sample(self, seq, k):
        self.draws += 1
        return self._r.sample(list(seq), k)

    def shuffle(self, lst):
        self.draws += 1
        self._r.shuffle(lst)

    def bytes(self, n):
        self.draws += 1
        return self._r.getrandbits(8 * n).to_bytes(n, "big") if n else b""

    def getrandbits(self, n):
        self.draws += 1
        return self._r.getrandbits(n) if n else 0

    def subset(self, seq, p=0.5):
        return [x for x in seq if self.chance(p)]


def plan_rng(plan_seed, tag=""):
    """A private deterministic generator derived from an integer stored *inside* a plan
    (fragment boundaries, delays...). Replay stays a pure function of the plan."""
    return random.Random(int.from_bytes(hashlib.sha256(f"{plan_seed}/{tag}".encode()).digest(), "big"))


def h8(*parts):
    """Short stable hash of parts (bytes/str/int), for state abstraction and schedule signatures."""
    m = hashlib.sha256()
    for p in parts:
        if isinstance(p, bytes):
            m.update(b"b" + len(p).to_bytes(4, "big") + p)
        else:
            s = str(p).encode()
            m.update(b"s" + len(s).to_bytes(4, "big") + s)
    return m.hexdigest()[:16]


class Trace:
    """Event log + digest + reach metrics of one run."""

    def __init__(self, keep_events=False):
        self._h = hashlib.sha256()
        self._sched = hashlib.sha256()
        self.n_events = 0
        self.faults = {}
        self.probes = {}
        self.states = set()
        self.keep = keep_events
        self.events = []
        self.sim_time = 0.0
        self.oracle_checks = {}
        # violation routing: a check only raises violations of its own property; signatures listed as open
        # known findings are recorded and the run continues, so that a known defect does not mask the rest of the run
        self.prop = None
        self.soft = frozenset()
        self.soft_hits = {}
        self.foreign_hits = {}

    def fail(self, prop, oracle, detail, msg):
        v = Violation(prop, oracle, detail, msg)
        if self.prop is not None and prop != self.prop:
            self.foreign_hits[v.signature] = self.foreign_hits.get(v.signature, 0) + 1
            return
        if v.signature in self.soft:
            self.soft_hits[v.signature] = self.soft_hits.get(v.signature, 0) + 1
            self.ev("oracle", "known-finding", v.signature)
            return
        raise v

    def calling(self, label):
        """Worlds name the library operation they are about to call; used to label a run that never comes back."""
        self.hang_label = label

    def ev(self, node, kind, summary=""):
        """Append one canonical line to the run's event log."""
        self.last_ev = f"{node}_{kind}"
        if isinstance(summary, bytes):
            summary = hashlib.sha256(summary).hexdigest()[:16]
        line = f"{self.n_events} {self.sim_time:.6f} {node} {kind} {summary}"
        self._h.update(line.encode() + b"\n")
        self._sched.update(f"{node}:{kind};".encode())
        self.n_events += 1
        if self.keep:
            self.events.append(line)

    def fault(self, kind, n=1):
        self.faults[kind] = self.faults.get(kind, 0) + n

    def probe(self, name, n=1):
        self.probes[name] = self.probes.get(name, 0) + n

    def oracle(self, name, n=1):
        self.oracle_checks[name] = self.oracle_checks.get(name, 0) + n

    def state(self, *parts):
        self.states.add(h8(*parts))

    def digest(self):
        return self._h.hexdigest()

    def schedule_sig(self):
        return self._sched.hexdigest()[:16]

    def result(self):
        return {
            "digest": self.digest(),
            "sched": self.schedule_sig(),
            "n_events": self.n_events,
            "faults": dict(self.faults),
            "probes": dict(self.probes),
            "oracles": dict(self.oracle_checks),
            "states": sorted(self.states),
            "sim_time": self.sim_time,
            "soft_hits": dict(self.soft_hits),
            "foreign_hits": dict(self.foreign_hits),
        }


class EventQueue:
    """Discrete-event queue ordered by (virtual time, seq). The trace's sim_time is the only clock."""

    def __init__(self, trace):
        self.trace = trace
        self.q = []
        self.seq = 0
        self.now = 0.0

    def after(self, delay, fn, *args):
        self.seq += 1
        heapq.heappush(self.q, (self.now + delay, self.seq, fn, args))

    def at(self, when, fn, *args):
        """Schedule at an absolute virtual time (no now+delay rounding: equal times keep submission order)."""
        self.seq += 1
        heapq.heappush(self.q, (max(when, self.now), self.seq, fn, args))

    def empty(self):
        return not self.q

    def step(self):
        t, _, fn, args = heapq.heappop(self.q)
        if t > self.now:
            self.now = t
            self.trace.sim_time = t
        fn(*args)

    def advance(self, d):
        """sleep(d) inside simulated code: run every event due before now+d, then jump."""
        target = self.now + d
        while self.q and self.q[0][0] <= target:
            self.step()
        self.now = target
        self.trace.sim_time = target


def canonical_json(obj):
    return json.dumps(obj, sort_keys=True, separators=(",", ":"))


def hx(b):
    return b.hex()


def unhx(s):
    return bytes.fromhex(s)
