"""Parallel seeded runner, minimiser, replay files, known findings, evidence.

Exit codes of a check: 0 = property held on everything explored (known findings are reported as
KNOWN-FINDING lines), 1 = violation (VIOLATION line with a replay file that reproduces in a fresh
interpreter), 2 = harness error (worker death, timeout, replay did not reproduce).
"""
import contextlib
import faulthandler
import importlib
import io
import json
import multiprocessing
import os
import signal
import subprocess
import threading
import sys
import time
import traceback
from concurrent.futures import ProcessPoolExecutor, as_completed

from sim.core import Chooser, HarnessError, SimHang, Trace, Violation, canonical_json, h8

VERIF = os.path.dirname(os.path.dirname(os.path.abspath(__file__)))
REPLAYS = os.path.join(VERIF, "replays")
EVIDENCE = os.environ.get("VERIF_EVIDENCE_DIR") or os.path.join(VERIF, "evidence")
KNOWN = os.path.join(VERIF, "known_findings.json")

WORLD_OF = {
    "C19": "p2p",
    "C17": "p2p",
    "C20": "airgap",
    "C15": "shares",
    "C05": "sighash",
    "C06": "sighash",
    "C04": "fetch",
    "C13": "musig",
    "C10": "psbt",
    "C11": "psbt",
}


def load_world(prop):
    return importlib.import_module("worlds." + WORLD_OF[prop])


def load_known():
    try:
        with open(KNOWN) as f:
            data = json.load(f)
    except FileNotFoundError:
        return {}
    out = {}
    for e in data.get("findings", []):
        if e.get("status") == "open":
            out[e["signature"]] = e
    return out


_KNOWN_CACHE = None


def load_known_cached():
    global _KNOWN_CACHE
    if _KNOWN_CACHE is None:
        _KNOWN_CACHE = load_known()
    return _KNOWN_CACHE


def execute_plan(world, plan, prop, keep_events=False):
    """Run one plan. Returns (result dict, violation or None). Library prints are swallowed."""
    trace = Trace(keep_events=keep_events)
    trace.prop = prop
    trace.soft = frozenset(load_known_cached())
    buf = io.StringIO()
    viol = None
    sample = None
    # budget in CPU seconds of this process (ITIMER_VIRTUAL), so that a loaded machine cannot turn a slow run into a "hang"
    hang_s = getattr(world, "HANG_S", 150)

    def on_alarm(signum, frame):
        raise SimHang()

    can_alarm = threading.current_thread() is threading.main_thread()
    if can_alarm:
        old_handler = signal.signal(signal.SIGVTALRM, on_alarm)
        signal.setitimer(signal.ITIMER_VIRTUAL, hang_s)
    with contextlib.redirect_stdout(buf):
        try:
            sample = world.execute(plan, prop, trace)
        except Violation as v:
            viol = v
        except SimHang:
            label = getattr(trace, "hang_label", None) or ("after_" + getattr(trace, "last_ev", "start"))
            viol = Violation(prop, "HANG", label, f"the run did not come back within {hang_s} s of CPU time (ordinary runs of this world take a small fraction of that): the library operation '{label}' never returns")
            if viol.signature in trace.soft:
                trace.soft_hits[viol.signature] = trace.soft_hits.get(viol.signature, 0) + 1
                viol = None
        finally:
            if can_alarm:
                signal.setitimer(signal.ITIMER_VIRTUAL, 0)
                signal.signal(signal.SIGVTALRM, old_handler)
    res = trace.result()
    res["sample"] = sample
    if keep_events:
        res["events"] = trace.events
    return res, viol


def _plan_for(world, prop, tier, seed, idx):
    ch = Chooser(f"{seed}/{world.WORLD}/{prop}/{idx}")
    return world.generate(ch, tier, prop)


_PROCESS_HISTORY = []  # (kind, key) of every run executed in this process, in order


def _run_batch(args):
    """Worker: run a batch of indices (or explicit plans); aggregate."""
    prop, tier, seed, items, per_run_timeout, want_digests = args
    sys.path.insert(0, VERIF) if VERIF not in sys.path else None
    world = load_world(prop)
    agg = {
        "runs": 0,
        "nontrivial_digests": [],
        "scheds": set(),
        "states": set(),
        "faults": {},
        "probes": {},
        "oracles": {},
        "events": 0,
        "sim_time": 0.0,
        "violations": [],
        "samples": [],
        "digests": {},
        "harness_errors": [],
        "soft_hits": {},
        "foreign_hits": {},
    }
    for item in items:
        kind, key, plan = item
        faulthandler.dump_traceback_later(max(per_run_timeout, 8 * getattr(world, "HANG_S", 150)), exit=True)
        try:
            if plan is None:
                plan = _plan_for(world, prop, tier, seed, key)
            res, viol = execute_plan(world, plan, prop)
        except Exception:
            agg["harness_errors"].append(
                {"key": f"{kind}:{key}", "tb": traceback.format_exc()[-3000:], "plan": plan}
            )
            continue
        finally:
            faulthandler.cancel_dump_traceback_later()
        agg["runs"] += 1
        agg["events"] += res["n_events"]
        agg["sim_time"] += res["sim_time"]
        for k, v in res["faults"].items():
            agg["faults"][k] = agg["faults"].get(k, 0) + v
        for k, v in res["probes"].items():
            agg["probes"][k] = agg["probes"].get(k, 0) + v
        for k, v in res["oracles"].items():
            agg["oracles"][k] = agg["oracles"].get(k, 0) + v
        for name in ("soft_hits", "foreign_hits"):
            for k, v in res[name].items():
                agg[name][k] = agg[name].get(k, 0) + v
        agg["scheds"].add(res["sched"])
        if len(agg["states"]) < 200000:
            agg["states"].update(res["states"])
        if world.nontrivial(res):
            agg["nontrivial_digests"].append(res["digest"][:16])
        if want_digests:
            agg["digests"][f"{kind}:{key}"] = res["digest"]
        if len(agg["samples"]) < 2 and res.get("sample") is not None:
            agg["samples"].append({"run": f"{kind}:{key}", "case": res["sample"]})
        if viol is not None:
            agg["violations"].append(
                {"key": f"{kind}:{key}", "signature": viol.signature, "msg": viol.msg[:2000], "plan": plan, "history": list(_PROCESS_HISTORY[-300:])}
            )
        _PROCESS_HISTORY.append((kind, key))
    agg["scheds"] = sorted(agg["scheds"])
    agg["states"] = sorted(agg["states"])
    return agg


def chunked(seq, n):
    for i in range(0, len(seq), n):
        yield seq[i : i + n]


# ----------------------------------------------------------------------------------------------
# minimisation


def in_clean_child(fn, timeout=900):
    """Run fn() in a forked child and return its JSON-serialisable result: the parent process must never execute library code
    itself, so that every fork of it starts from a clean library state."""
    r, w = os.pipe()
    pid = os.fork()
    if pid == 0:
        os.close(r)
        try:
            faulthandler.dump_traceback_later(timeout, exit=True)
            data = json.dumps(fn()).encode()
            with os.fdopen(w, "wb") as f:
                f.write(data)
            os._exit(0)
        except BaseException:
            import traceback

            traceback.print_exc()
            os._exit(3)
    os.close(w)
    with os.fdopen(r, "rb") as f:
        data = f.read()
    _, status = os.waitpid(pid, 0)
    if status != 0:
        raise HarnessError(f"child computing {getattr(fn, '__name__', fn)} died with status {status}")
    return json.loads(data)


def forked_signature(world, prelude, plan, prop, timeout=600):
    """Execute prelude plans then plan in a forked child (a clean copy of this process, which never executes plans itself);
    returns the violation signature of the last plan ('' if none, None if the child died)."""
    r, w = os.pipe()
    pid = os.fork()
    if pid == 0:
        os.close(r)
        try:
            faulthandler.dump_traceback_later(timeout, exit=True)
            for p in prelude:
                try:
                    execute_plan(world, p, prop)
                except BaseException:
                    pass
            _, viol = execute_plan(world, plan, prop)
            os.write(w, (viol.signature if viol is not None else "").encode())
            os._exit(0)
        except BaseException:
            os._exit(3)
    os.close(w)
    data = b""
    while True:
        chunk = os.read(r, 65536)
        if not chunk:
            break
        data += chunk
    os.close(r)
    _, status = os.waitpid(pid, 0)
    if status != 0:
        return None
    return data.decode()


def _ddmin(items, test, deadline, keep_one=True):
    n = 2
    while len(items) >= (2 if keep_one else 1) and time.time() < deadline:
        size = max(1, len(items) // n)
        reduced = False
        for start in range(0, len(items), size):
            cand = items[:start] + items[start + size :]
            if keep_one and not cand:
                continue
            if test(cand):
                items = cand
                n = max(n - 1, 2)
                reduced = True
                break
        if not reduced:
            if size == 1:
                break
            n = min(n * 2, len(items))
    return items


def minimise(world, plan, prop, signature, prelude=(), budget_s=90.0, max_exec=400):
    """ddmin over the prelude (earlier runs of the same process, when the failure needs state they left behind), then over
    plan['steps'], then the world's own per-step simplifications. Every candidate runs in a forked clean process and is kept
    only if the same signature still fails."""
    t0 = time.time()
    deadline = t0 + budget_s
    execs = [0]
    prelude = list(prelude)

    def ok(pre, p):
        if time.time() > deadline or execs[0] >= max_exec:
            return False
        execs[0] += 1
        return forked_signature(world, pre, p, prop) == signature

    best = json.loads(canonical_json(plan))
    if prelude:
        prelude = _ddmin(prelude, lambda c: ok(c, best), deadline, keep_one=False)
    steps = best.get("steps")
    if isinstance(steps, list) and len(steps) > 1:
        allow_empty = getattr(world, "ALLOW_EMPTY_STEPS", False)

        def t(c):
            return ok(prelude, dict(best, steps=c))

        steps = _ddmin(steps, t, deadline, keep_one=not allow_empty)
        best = dict(best, steps=steps)
    shrink = getattr(world, "shrink", None)
    if shrink is not None:
        progress = True
        while progress and time.time() < deadline:
            progress = False
            for cand in shrink(best):
                if ok(prelude, cand):
                    best = cand
                    progress = True
                    break
    return best, prelude, execs[0]


def write_replay(prop, world, seed, key, plan, signature, msg, prelude=()):
    os.makedirs(REPLAYS, exist_ok=True)
    name = f"{prop}-{seed}-{str(key).replace(':', '_')}-{h8(signature)[:8]}.json"
    path = os.path.join(REPLAYS, name)
    with open(path, "w") as f:
        json.dump(
            {
                "property": prop,
                "world": world.WORLD,
                "seed": seed,
                "run": key,
                "signature": signature,
                "message": msg,
                "prelude": list(prelude),
                "prelude_note": "plans executed before 'plan' in the same interpreter; non-empty when the failure needs state that earlier runs left behind in the process (module/class level)",
                "plan": plan,
            },
            f,
            indent=1,
            sort_keys=True,
        )
    return path


def replay_file(path, verbose=True):
    """Execute a replay file in this interpreter. Returns exit code (1 if it reproduces)."""
    with open(path) as f:
        rep = json.load(f)
    prop = rep["property"]
    world = load_world(prop)
    for pre in rep.get("prelude", []):
        try:
            execute_plan(world, pre, prop)
        except BaseException:
            pass
    res, viol = execute_plan(world, rep["plan"], prop, keep_events=True)
    if verbose:
        for line in res.get("events", [])[-60:]:
            print("  ev " + line)
    if viol is None:
        print(f"REPLAY-CLEAN property={prop} digest={res['digest']}")
        return 0
    print(f"REPLAY-VIOLATION property={prop} signature={viol.signature} digest={res['digest']}")
    print(f"  {viol.msg[:1500]}")
    if "signature" in rep and rep["signature"] != viol.signature:
        print(f"  (recorded signature was {rep['signature']})")
    return 1


def confirm_in_fresh_interpreter(path, signature):
    env = dict(os.environ)
    env["PYTHONHASHSEED"] = "0"
    p = subprocess.run(
        [sys.executable, os.path.join(VERIF, "check.py"), "--replay", path],
        capture_output=True,
        text=True,
        env=env,
        timeout=600,
    )
    return p.returncode == 1 and f"signature={signature} " in p.stdout, p.stdout[-2000:] + p.stderr[-2000:]


# ----------------------------------------------------------------------------------------------


def run_check(prop, tier, seed, budget_s=None, workers=None, want_digests=False, quiet=False, write_evidence=True):
    t0 = time.time()
    world = load_world(prop)
    cfg = world.TIERS[prop][tier]
    runs = int(os.environ.get("VERIF_RUNS", cfg["runs"]))
    per_run_timeout = cfg.get("per_run_timeout", 120)
    wall_cap = cfg.get("wall_cap", 600)
    if budget_s is None and os.environ.get("VERIF_BUDGET_S"):
        budget_s = float(os.environ["VERIF_BUDGET_S"])
    workers = workers or int(os.environ.get("VERIF_WORKERS", "16"))
    chunk = cfg.get("chunk", 50)

    items = []
    enum_plans = []
    if hasattr(world, "enumerate_plans"):
        # enumeration may execute base sessions to learn stream lengths: do it in a child so this process stays clean
        enum_plans = in_clean_child(lambda: list(world.enumerate_plans(tier, prop, seed)))
        items += [("enum", i, p) for i, p in enumerate(enum_plans)]
    items += [("idx", i, None) for i in range(runs)]

    total = {
        "runs": 0,
        "nontrivial": set(),
        "scheds": set(),
        "states": set(),
        "faults": {},
        "probes": {},
        "oracles": {},
        "events": 0,
        "sim_time": 0.0,
        "violations": [],
        "samples": [],
        "digests": {},
        "harness_errors": [],
        "soft_hits": {},
        "foreign_hits": {},
    }

    def merge(agg):
        total["runs"] += agg["runs"]
        total["nontrivial"].update(agg["nontrivial_digests"])
        total["scheds"].update(agg["scheds"])
        if len(total["states"]) < 2000000:
            total["states"].update(agg["states"])
        for name in ("faults", "probes", "oracles", "soft_hits", "foreign_hits"):
            for k, v in agg[name].items():
                total[name][k] = total[name].get(k, 0) + v
        total["events"] += agg["events"]
        total["sim_time"] += agg["sim_time"]
        total["violations"] += agg["violations"]
        total["harness_errors"] += agg["harness_errors"]
        total["digests"].update(agg["digests"])
        for s in agg["samples"]:
            if len(total["samples"]) < 3:
                total["samples"].append(s)

    harness_fail = None
    ctx = multiprocessing.get_context("fork")
    next_extra = runs
    try:
        with ProcessPoolExecutor(max_workers=workers, mp_context=ctx) as ex:
            pending = set()
            it = iter(list(chunked(items, chunk)))
            exhausted = False

            def submit_more():
                nonlocal exhausted, next_extra
                while len(pending) < workers * 2:
                    batch = None
                    if not exhausted:
                        batch = next(it, None)
                        if batch is None:
                            exhausted = True
                    if batch is None:
                        # fixed indices done; extra time only adds more indices
                        if budget_s is not None and time.time() - t0 < budget_s:
                            batch = [("idx", i, None) for i in range(next_extra, next_extra + chunk)]
                            next_extra += chunk
                        else:
                            return
                    if time.time() - t0 > wall_cap and budget_s is None:
                        return
                    pending.add(ex.submit(_run_batch, (prop, tier, seed, batch, per_run_timeout, want_digests)))

            submit_more()
            while pending:
                done = next(as_completed(list(pending)))
                pending.discard(done)
                merge(done.result())
                if len(total["violations"]) < 200:
                    submit_more()
    except Exception as e:  # BrokenProcessPool etc.
        harness_fail = f"{type(e).__name__}: {e}"

    wall_runs = time.time() - t0

    # ---- violations
    known = load_known()
    by_sig = {}
    for v in total["violations"]:
        by_sig.setdefault(v["signature"], []).append(v)
    exit_code = 0
    n_unknown = 0
    for sig in sorted(total["soft_hits"]):
        if quiet:
            continue
        print(f"KNOWN-FINDING: property={prop} {known[sig].get('what', sig) if sig in known else sig} [signature={sig} hits={total['soft_hits'][sig]}]")
    for sig in sorted(by_sig):
        vs = by_sig[sig]
        n_unknown += 1
        if n_unknown > 4:
            print(f"  (further distinct violation signature not minimised: {sig} hits={len(vs)})")
            exit_code = 1
            continue
        def plan_of(hk):
            kind_, key_ = hk
            return enum_plans[key_] if kind_ == "enum" else _plan_for(world, prop, tier, seed, key_)

        cands = sorted(vs, key=lambda v: len(canonical_json(v["plan"])))[:4]
        chosen = None
        for cand in cands:
            if forked_signature(world, [], cand["plan"], prop) == sig:
                chosen = (cand, [])
                break
        if chosen is None:
            # not reproducible in a clean process: the failure needs state left behind by earlier runs of the worker process
            for cand in cands[:2]:
                pre = [plan_of(hk) for hk in cand.get("history", [])]
                if forked_signature(world, pre, cand["plan"], prop) == sig:
                    chosen = (cand, pre)
                    break
        if chosen is None:
            print(f"HARNESS-ERROR violation {sig} (first seen in run {cands[0]['key']}) reproduces neither alone nor after the worker's earlier runs in a clean process")
            harness_fail = harness_fail or "violation not reproducible"
            continue
        first, prelude = chosen
        plan, prelude, execs = minimise(world, first["plan"], prop, sig, prelude=prelude, budget_s=cfg.get("minimise_budget", 90))
        msg = first["msg"]
        path = write_replay(prop, world, seed, first["key"], plan, sig, msg, prelude=prelude)
        ok, out = confirm_in_fresh_interpreter(path, sig)
        if not ok:
            # fall back to the unminimised, already confirmed reproduction
            path = write_replay(prop, world, seed, first["key"], first["plan"], sig, msg, prelude=chosen[1])
            ok, out = confirm_in_fresh_interpreter(path, sig)
        if ok:
            print(f"VIOLATION property={prop} replay={path}")
            print(f"  signature={sig} hits={len(vs)} minimise_execs={execs}" + (f" prelude_runs={len(prelude)} (needs state left behind by earlier runs in the same process)" if prelude else ""))
            print(f"  {msg[:600]}")
            exit_code = 1
        else:
            print(f"HARNESS-ERROR replay of {path} did not reproduce {sig} in a fresh interpreter:\n{out}")
            harness_fail = harness_fail or "replay did not reproduce"

    for he in total["harness_errors"][:3]:
        print(f"HARNESS-ERROR in run {he['key']}:\n{he['tb']}")
    if total["harness_errors"]:
        harness_fail = harness_fail or f"{len(total['harness_errors'])} runs raised non-violation exceptions"

    wall = time.time() - t0
    cov = {
        "evaluations": total["runs"],
        "distinct_nontrivial": len(total["nontrivial"]),
        "rule": world.RULE[prop],
        "samples": total["samples"][:3],
        "exhaustive": False,
        "enumerated_plans": len(enum_plans),
        "seeded_runs": max(0, total["runs"] - len(enum_plans)),
        "runs_per_hour": int(total["runs"] / max(wall_runs, 1e-6) * 3600),
        "simulated_time": {"value": round(total["sim_time"], 3), "unit": world.TIME_UNIT},
        "events_executed": total["events"],
        "faults_fired": dict(sorted(total["faults"].items())),
        "probes": dict(sorted(total["probes"].items())),
        "oracle_evaluations": dict(sorted(total["oracles"].items())),
        "distinct_schedules": len(total["scheds"]),
        "distinct_states": len(total["states"]),
        "distinct_measure": "schedules = distinct sha256 over the run's sequence of (node, event kind); states = distinct "
        "hashes of the world's state abstraction recorded after events; distinct_nontrivial = distinct event-log digests of runs non-trivial by 'rule'",
        "components": world.COMPONENTS,
        "workers": workers,
        "violating_runs": len(total["violations"]),
        "known_finding_hits": dict(sorted(total["soft_hits"].items())),
        "other_property_oracle_hits_ignored": dict(sorted(total["foreign_hits"].items())),
    }
    # reach: fault kinds, probes and oracles that the committed baseline (tools/gen_reach.py: hit under every one of several seeds of
    # the quick tier) says this workload reaches; a name missing here means the workload or fault mix lost reach (not a violation)
    try:
        with open(os.path.join(VERIF, "reach.json")) as f:
            base = json.load(f).get(prop, {})
    except Exception:
        base = {}
    missing = {}
    for fam, key in (("faults", "faults_fired"), ("probes", "probes"), ("oracles", "oracle_evaluations")):
        miss = [n for n in base.get(fam, []) if not cov[key].get(n)]
        if miss:
            missing[fam] = miss
    cov["reach"] = {"baseline_names": sum(len(base.get(f_, [])) for f_ in ("faults", "probes", "oracles")), "not_reached_in_this_run": missing}
    if missing and not quiet:
        print(f"REACH-GAP {prop}: expected by reach.json but not hit in this run: {missing}")
    ev = {
        "property_id": prop,
        "tier": tier,
        "seed": seed,
        "level": world.LEVEL[prop],
        "coverage": cov,
        "assumptions": world.ASSUMPTIONS[prop],
        "wall_s": round(wall, 2),
        "violations": len(total["violations"]),
    }
    if write_evidence:
        os.makedirs(EVIDENCE, exist_ok=True)
        with open(os.path.join(EVIDENCE, f"{prop}.json"), "w") as f:
            json.dump(ev, f, indent=1, sort_keys=True)
            f.write("\n")
    if not quiet:
        print(
            f"[{prop} {tier} seed={seed}] runs={total['runs']} (enumerated {len(enum_plans)}) nontrivial-distinct={len(total['nontrivial'])} "
            f"schedules={len(total['scheds'])} states={len(total['states'])} events={total['events']} wall={wall:.1f}s "
            f"runs/h={cov['runs_per_hour']}"
        )
        print(f"  faults fired: {cov['faults_fired']}")
        print(f"  probes: {cov['probes']}")
        print(f"  oracle evaluations: {cov['oracle_evaluations']}")
    if harness_fail:
        print(f"HARNESS-ERROR {harness_fail}")
        return 2, total
    return exit_code, total
