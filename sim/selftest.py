"""Machinery self-tests: reference models against published vectors; determinism of every world."""
import json
import os
import subprocess
import sys
import time

from sim import runner
from sim.core import Chooser

VERIF = runner.VERIF


def _digests(prop, n, seed=0, tier="quick"):
    world = runner.load_world(prop)
    out = {}
    for i in range(n):
        plan = runner._plan_for(world, prop, tier, seed, i)
        res, viol = runner.execute_plan(world, plan, prop)
        out[str(i)] = res["digest"] + ("!" + viol.signature if viol else "")
    return out


def determinism(props, n):
    """Each of n seeds per world: twice in this process, once in fresh interpreters with PYTHONHASHSEED=0 and =1,
    and through the parallel runner at two worker counts. All event-log digests must agree."""
    ok = True
    for prop in props:
        t0 = time.time()
        a = _digests(prop, n)
        b = _digests(prop, n)
        if a != b:
            bad = [k for k in a if a[k] != b[k]]
            print(f"DETERMINISM-FAIL {prop}: same-process rerun differs at runs {bad[:10]}")
            ok = False
        for hs in ("0", "1", "12345"):
            env = dict(os.environ, PYTHONHASHSEED=hs, VERIF_KEEP_HASHSEED="1")
            p = subprocess.run([sys.executable, os.path.join(VERIF, "check.py"), prop, "--selftest", "digests", "--seeds", str(n)], capture_output=True, text=True, env=env, timeout=3000)
            try:
                c = json.loads(p.stdout.strip().splitlines()[-1])
            except Exception:
                print(f"DETERMINISM-FAIL {prop}: fresh interpreter (PYTHONHASHSEED={hs}) produced no digests:\n{p.stdout[-500:]}{p.stderr[-1500:]}")
                ok = False
                continue
            if c != a:
                bad = [k for k in a if a[k] != c.get(k)]
                print(f"DETERMINISM-FAIL {prop}: fresh interpreter PYTHONHASHSEED={hs} differs at runs {bad[:10]}")
                ok = False
        for workers in (3, 16):
            os.environ["VERIF_RUNS"] = str(n)
            code, total = runner.run_check(prop, "quick", 0, workers=workers, want_digests=True, quiet=True, write_evidence=False)
            d = {k.split(":")[1]: v for k, v in total["digests"].items() if k.startswith("idx:")}
            d2 = {k: v.split("!")[0] for k, v in a.items()}
            if d != d2:
                bad = [k for k in d2 if d2[k] != d.get(k)]
                print(f"DETERMINISM-FAIL {prop}: parallel runner with {workers} workers differs at runs {bad[:10]}")
                ok = False
        del os.environ["VERIF_RUNS"]
        print(f"determinism {prop}: {n} seeds x (2 in-process + 3 fresh interpreters with different PYTHONHASHSEED + 2 worker counts) {'OK' if ok else 'FAIL'} in {time.time()-t0:.1f}s")
    return 0 if ok else 2


def refs():
    """Reference models against vectors that do not come from buidl's own code paths."""
    from ref import selfcheck

    fails = selfcheck.run_all()
    for f in fails:
        print("REF-SELFTEST-FAIL " + f)
    print(f"reference self-tests: {'OK' if not fails else 'FAIL'}")
    return 0 if not fails else 2


def main(which, prop, n):
    if which == "refs":
        return refs()
    if which == "digests":
        print(json.dumps(_digests(prop, n)))
        return 0
    if which == "determinism":
        props = [prop] if prop else sorted(runner.WORLD_OF)
        props = [p for p in props if _built(p)]
        return determinism(props, n)
    print("unknown selftest")
    return 2


def _built(prop):
    try:
        runner.load_world(prop)
        return True
    except ImportError:
        return False
