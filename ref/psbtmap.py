"""BIP174 key-value map reader/writer. Nothing else: no semantics beyond the map structure and the unsigned
transaction's input/output counts. Shares no code with buidl."""
from ref import txmodel as tm

MAGIC = b"psbt\xff"


def _read_map(r):
    out = []
    while True:
        klen = r.compact()
        if klen == 0:
            return out
        key = r.take(klen)
        val = r.varbytes()
        out.append((key, val))


def parse(raw):
    """-> dict(global=[(k,v)], inputs=[[(k,v)]], outputs=[[(k,v)]], tx=ref tx dict, tx_raw=bytes, tx_segwit_marker=bool). Raises ValueError."""
    if raw[:5] != MAGIC:
        raise ValueError("magic")
    r = tm.Reader(raw, 5)
    g = _read_map(r)
    txs = [v for k, v in g if k == b"\x00"]
    if len(txs) != 1:
        raise ValueError("exactly one unsigned tx record required")
    tx, segwit = tm.parse_tx(txs[0], strict=True)
    ins = [_read_map(r) for _ in tx["ins"]]
    outs = [_read_map(r) for _ in tx["outs"]]
    if not r.done():
        raise ValueError("trailing bytes")
    for m in [g] + ins + outs:
        keys = [k for k, _ in m]
        if len(set(keys)) != len(keys):
            raise ValueError("duplicate key")
    return {"global": g, "inputs": ins, "outputs": outs, "tx": tx, "tx_raw": txs[0], "tx_segwit_marker": segwit}


def _ser_map(m):
    out = b""
    for k, v in m:
        out += tm.compact_size(len(k)) + k + tm.compact_size(len(v)) + v
    return out + b"\x00"


def serialize(p):
    out = MAGIC + _ser_map(p["global"])
    for m in p["inputs"]:
        out += _ser_map(m)
    for m in p["outputs"]:
        out += _ser_map(m)
    return out


def get(m, ktype, whole_key=False):
    """all (key-without-type, value) records of a type in a map"""
    return [((k if whole_key else k[1:]), v) for k, v in m if k[:1] == bytes([ktype])]


def set_value(m, key, value):
    for i, (k, v) in enumerate(m):
        if k == key:
            m[i] = (k, value)
            return True
    return False


def derivations(m, ktype):
    """BIP32 derivation records of a map: [(pubkey33, fingerprint4, [indexes])]"""
    out = []
    for k, v in get(m, ktype):
        if len(v) < 4 or (len(v) - 4) % 4:
            raise ValueError("derivation value length")
        idx = [int.from_bytes(v[4 + 4 * i : 8 + 4 * i], "little") for i in range((len(v) - 4) // 4)]
        out.append((k, v[:4], idx))
    return out
