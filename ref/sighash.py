"""Signature-hash algorithms written from the specifications: the original (Satoshi) algorithm incl. the
SIGHASH_SINGLE 'one' rule, BIP143, BIP341/BIP342. Operates on ref.txmodel transactions. Returns 32 bytes."""
import struct

from ref.secp import tagged_hash
from ref.txmodel import compact_size, ser_out, sha256, sha256d

ALL, NONE, SINGLE, ACP = 1, 2, 3, 0x80
ONE = b"\x01" + b"\x00" * 31


def strip_codeseparators(script):
    # only used with standard templates that contain none; kept for completeness (no OP_CODESEPARATOR-aware parsing needed there)
    return script


def legacy(tx, idx, script_code, hash_type):
    """Original algorithm. Returns the 32-byte digest (uint256 'one' = 01 00..00 for the out-of-range cases)."""
    if idx >= len(tx["ins"]):
        return ONE
    base = hash_type & 0x1F
    if base == SINGLE and idx >= len(tx["outs"]):
        return ONE
    acp = bool(hash_type & ACP)
    out = struct.pack("<I", tx["version"] & 0xFFFFFFFF)
    ins = [idx] if acp else list(range(len(tx["ins"])))
    out += compact_size(len(ins))
    for i in ins:
        inp = tx["ins"][i]
        out += inp["txid"][::-1] + struct.pack("<I", inp["vout"])
        if i == idx:
            out += compact_size(len(script_code)) + script_code
            out += struct.pack("<I", inp["sequence"])
        else:
            out += b"\x00"
            out += struct.pack("<I", 0 if base in (NONE, SINGLE) else inp["sequence"])
    if base == NONE:
        out += compact_size(0)
    elif base == SINGLE:
        out += compact_size(idx + 1)
        for i in range(idx):
            out += b"\xff" * 8 + b"\x00"
        out += ser_out(tx["outs"][idx])
    else:
        out += compact_size(len(tx["outs"]))
        for o in tx["outs"]:
            out += ser_out(o)
    out += struct.pack("<I", tx["locktime"])
    out += struct.pack("<I", hash_type & 0xFFFFFFFF)
    return sha256d(out)


def bip143(tx, idx, script_code, amount, hash_type):
    base = hash_type & 0x1F
    acp = bool(hash_type & ACP)
    zero = b"\x00" * 32
    if not acp:
        hash_prevouts = sha256d(b"".join(i["txid"][::-1] + struct.pack("<I", i["vout"]) for i in tx["ins"]))
    else:
        hash_prevouts = zero
    if not acp and base not in (SINGLE, NONE):
        hash_sequence = sha256d(b"".join(struct.pack("<I", i["sequence"]) for i in tx["ins"]))
    else:
        hash_sequence = zero
    if base not in (SINGLE, NONE):
        hash_outputs = sha256d(b"".join(ser_out(o) for o in tx["outs"]))
    elif base == SINGLE and idx < len(tx["outs"]):
        hash_outputs = sha256d(ser_out(tx["outs"][idx]))
    else:
        hash_outputs = zero
    inp = tx["ins"][idx]
    pre = struct.pack("<I", tx["version"] & 0xFFFFFFFF) + hash_prevouts + hash_sequence
    pre += inp["txid"][::-1] + struct.pack("<I", inp["vout"])
    pre += compact_size(len(script_code)) + script_code
    pre += struct.pack("<Q", amount) + struct.pack("<I", inp["sequence"])
    pre += hash_outputs + struct.pack("<I", tx["locktime"]) + struct.pack("<I", hash_type & 0xFFFFFFFF)
    return sha256d(pre)


def tapleaf_hash(script, leaf_version=0xC0):
    return tagged_hash("TapLeaf", bytes([leaf_version]) + compact_size(len(script)) + script)


def tapbranch_hash(a, b):
    return tagged_hash("TapBranch", a + b if a < b else b + a)


def bip341(tx, idx, spent, hash_type, annex=None, leaf_hash=None, codesep_pos=0xFFFFFFFF, key_version=0):
    """spent: list of (amount, scriptPubKey) for every input. leaf_hash given => script path (ext_flag 1).
    Returns 32 bytes, or None when the specification says the signature message is undefined (fail)."""
    if hash_type not in (0, 1, 2, 3, 0x81, 0x82, 0x83):
        return None
    base = hash_type & 3
    acp = bool(hash_type & ACP)
    if idx >= len(tx["ins"]):
        return None
    msg = bytes([hash_type]) + struct.pack("<I", tx["version"] & 0xFFFFFFFF) + struct.pack("<I", tx["locktime"])
    if not acp:
        msg += sha256(b"".join(i["txid"][::-1] + struct.pack("<I", i["vout"]) for i in tx["ins"]))
        msg += sha256(b"".join(struct.pack("<Q", a) for a, _ in spent))
        msg += sha256(b"".join(compact_size(len(s)) + s for _, s in spent))
        msg += sha256(b"".join(struct.pack("<I", i["sequence"]) for i in tx["ins"]))
    if base not in (NONE, SINGLE):
        msg += sha256(b"".join(ser_out(o) for o in tx["outs"]))
    ext_flag = 1 if leaf_hash is not None else 0
    msg += bytes([ext_flag * 2 + (1 if annex is not None else 0)])
    inp = tx["ins"][idx]
    if acp:
        msg += inp["txid"][::-1] + struct.pack("<I", inp["vout"])
        msg += struct.pack("<Q", spent[idx][0]) + compact_size(len(spent[idx][1])) + spent[idx][1]
        msg += struct.pack("<I", inp["sequence"])
    else:
        msg += struct.pack("<I", idx)
    if annex is not None:
        msg += sha256(compact_size(len(annex)) + annex)
    if base == SINGLE:
        if idx >= len(tx["outs"]):
            return None
        msg += sha256(ser_out(tx["outs"][idx]))
    if leaf_hash is not None:
        msg += leaf_hash + bytes([key_version]) + struct.pack("<I", codesep_pos)
    return tagged_hash("TapSighash", b"\x00" + msg)
