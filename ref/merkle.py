"""Consensus Merkle root and BIP37 partial Merkle trees (builder and extractor), after the BIP37 text /
Bitcoin Core's CPartialMerkleTree. Hashes here are in *internal* byte order (as hashed)."""
from ref.txmodel import sha256d


def merkle_root(leaves):
    if not leaves:
        raise ValueError("empty")
    level = list(leaves)
    while len(level) > 1:
        if len(level) % 2:
            level = level + [level[-1]]
        level = [sha256d(level[i] + level[i + 1]) for i in range(0, len(level), 2)]
    return level[0]


def _width(total, height):
    return (total + (1 << height) - 1) >> height


def _calc_hash(height, pos, leaves):
    if height == 0:
        return leaves[pos]
    left = _calc_hash(height - 1, pos * 2, leaves)
    if pos * 2 + 1 < _width(len(leaves), height - 1):
        right = _calc_hash(height - 1, pos * 2 + 1, leaves)
    else:
        right = left
    return sha256d(left + right)


def build_partial(leaves, matches):
    """leaves: list of txids (internal order); matches: list of bool. Returns (total, hashes, flag_bytes, bits)."""
    total = len(leaves)
    height = 0
    while _width(total, height) > 1:
        height += 1
    bits = []
    hashes = []

    def rec(h, pos):
        parent_of_match = any(matches[p] for p in range(pos << h, min((pos + 1) << h, total)))
        bits.append(1 if parent_of_match else 0)
        if h == 0 or not parent_of_match:
            hashes.append(_calc_hash(h, pos, leaves))
        else:
            rec(h - 1, pos * 2)
            if pos * 2 + 1 < _width(total, h - 1):
                rec(h - 1, pos * 2 + 1)

    rec(height, 0)
    nbytes = (len(bits) + 7) // 8
    fb = bytearray(nbytes)
    for i, b in enumerate(bits):
        if b:
            fb[i // 8] |= 1 << (i % 8)
    return total, hashes, bytes(fb), bits


def extract_partial(total, hashes, flag_bytes):
    """Strict extractor (Core's ExtractMatches). Returns (root, matched) or raises ValueError."""
    if total == 0:
        raise ValueError("no transactions")
    if len(hashes) > total:
        raise ValueError("too many hashes")
    bits = []
    for byte in flag_bytes:
        for i in range(8):
            bits.append((byte >> i) & 1)
    if len(bits) < len(hashes):
        raise ValueError("too few bits")
    height = 0
    while _width(total, height) > 1:
        height += 1
    st = {"b": 0, "h": 0}
    matched = []

    def rec(h, pos):
        if st["b"] >= len(bits):
            raise ValueError("bits overflow")
        parent = bits[st["b"]]
        st["b"] += 1
        if h == 0 or not parent:
            if st["h"] >= len(hashes):
                raise ValueError("hash overflow")
            v = hashes[st["h"]]
            st["h"] += 1
            if h == 0 and parent:
                matched.append(v)
            return v
        left = rec(h - 1, pos * 2)
        if pos * 2 + 1 < _width(total, h - 1):
            right = rec(h - 1, pos * 2 + 1)
            if right == left:
                raise ValueError("duplicate subtree (CVE-2012-2459)")
        else:
            right = left
        return sha256d(left + right)

    root = rec(height, 0)
    if (st["b"] + 7) // 8 != (len(bits) + 7) // 8:
        raise ValueError("unused flag bytes")
    if st["h"] != len(hashes):
        raise ValueError("unused hashes")
    return root, matched
