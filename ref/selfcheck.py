"""Self-checks of the reference models against vectors that are data (published test vectors / mainnet
objects), never against buidl's code."""
import struct

from ref import merkle, p2p, txmodel as tm

GENESIS_HEADER = bytes.fromhex(
    "0100000000000000000000000000000000000000000000000000000000000000000000003ba3edfd7a7b12b27ac72c3e67768f617fc81bc3888a51323a9fb8aa4b1e5e4a29ab5f49ffff001d1dac2b7c"
)
REAL_VERSION_ENVELOPE = bytes.fromhex(
    "f9beb4d976657273696f6e0000000000650000005f1a69d2721101000100000000000000bc8f5e5400000000010000000000000000000000000000000000ffffc61b6409208d010000000000000000000000000000000000ffffcb0071c0208d128035cbc97953f80f2f5361746f7368693a302e392e332fcf05050001"
)
MERKLE_12 = [
    "c117ea8ec828342f4dfb0ad6bd140e03a50720ece40169ee38bdc15d9eb64cf5",
    "c131474164b412e3406696da1ee20ab0fc9bf41c8f05fa8ceea7a08d672d7cc5",
    "f391da6ecfeed1814efae39e7fcb3838ae0b02c02ae7d0a5848a66947c0727b0",
    "3d238a92a94532b946c90e19c49351c763696cff3db400485b813aecb8a13181",
    "10092f2633be5f3ce349bf9ddbde36caa3dd10dfa0ec8106bce23acbff637dae",
    "7d37b3d54fa6a64869084bfd2e831309118b9e833610e6228adacdbd1b4ba161",
    "8118a77e542892fe15ae3fc771a4abfd2f5d5d5997544c3487ac36b5c85170fc",
    "dff6879848c2c9b62fe652720b8df5272093acfaa45a43cdb3696fe2466a3877",
    "b825c0745f46ac58f7d3759e6dc535a1fec7820377f24d4c2c6ad2cc55c0cb59",
    "95513952a04bd8992721e9b7e2937f1c04ba31e0469fbe615a78197f68f52b7c",
    "2e6d722e5e4dbdf2447ddecc9f7dabb8e299bae921c99ad5b0184cd9eb8e5908",
    "b13a750047bc0bdceb2473e5fe488c2596d7a7124b4e716fdd29b046ef99bbf0",
]
MERKLE_12_ROOT = "acbcab8bcc1af95d8d563b77d24c3d19b18f1486383d75a5085c4e86c86beed6"

CHECKS = []


def check(fn):
    CHECKS.append(fn)
    return fn


@check
def p2p_envelope():
    envs, st, off = p2p.parse_all(REAL_VERSION_ENVELOPE, p2p.MAGIC["mainnet"])
    assert st == "clean_eof" and len(envs) == 1, (st, envs)
    raw12, payload = envs[0]
    assert raw12.rstrip(b"\x00") == b"version"
    d = p2p.dec_version(payload)
    assert d["version"] == 70002 and d["recv_port"] == 8333 and d["user_agent"] == b"/Satoshi:0.9.3/", d
    assert p2p.envelope(p2p.MAGIC["mainnet"], b"version", payload) == REAL_VERSION_ENVELOPE
    # rejections
    bad = bytearray(REAL_VERSION_ENVELOPE)
    bad[30] ^= 1
    assert p2p.parse_all(bytes(bad), p2p.MAGIC["mainnet"])[1] == "bad_checksum"
    assert p2p.parse_all(REAL_VERSION_ENVELOPE[:-1], p2p.MAGIC["mainnet"])[1] == "truncated"
    assert p2p.parse_all(REAL_VERSION_ENVELOPE, p2p.MAGIC["testnet"])[1] == "bad_magic"
    assert p2p.parse_next(REAL_VERSION_ENVELOPE[:-1], 0, p2p.MAGIC["mainnet"], False)[0] == "pending"


@check
def p2p_headers_pow():
    assert p2p.header_hash(GENESIS_HEADER).hex() == "000000000019d6689c085ae165831e934ff763ae46a2a6c172b3f1b60a8ce26f"
    assert p2p.pow_ok(GENESIS_HEADER)
    t, neg, ovf = p2p.compact_to_target(bytes.fromhex("ffff001d"))
    assert t == 0xFFFF << 208 and not neg and not ovf
    assert p2p.compact_to_target(struct.pack("<I", 0x01003456))[0] == 0
    assert p2p.compact_to_target(struct.pack("<I", 0x01123456))[0] == 0x12
    assert p2p.compact_to_target(struct.pack("<I", 0x04923456))[1] is True
    assert p2p.compact_to_target(struct.pack("<I", 0xFF123456))[2] is True
    d = p2p.dec_header(GENESIS_HEADER)
    assert p2p.header80(d["version"], d["prev"], d["root"], d["time"], d["bits"], d["nonce"]) == GENESIS_HEADER
    bad = bytearray(GENESIS_HEADER)
    bad[79] ^= 1
    assert not p2p.pow_ok(bytes(bad))


@check
def merkle_roots():
    leaves = [bytes.fromhex(h) for h in MERKLE_12]
    assert merkle.merkle_root(leaves).hex() == MERKLE_12_ROOT
    assert merkle.merkle_root(leaves[:1]) == leaves[0]


@check
def merkle_partial_roundtrip():
    import hashlib

    for n in range(1, 10):
        leaves = [hashlib.sha256(bytes([n, i])).digest() for i in range(n)]
        root = merkle.merkle_root(leaves)
        for mask in range(1 << n):
            flags = [(mask >> i) & 1 == 1 for i in range(n)]
            total, hashes, fb, bits = merkle.build_partial(leaves, flags)
            r2, matched = merkle.extract_partial(total, hashes, fb)
            assert r2 == root, (n, mask)
            assert matched == [l for l, f in zip(leaves, flags) if f], (n, mask)


@check
def merkle_real_block():
    import os

    here = os.path.dirname(os.path.abspath(__file__))
    raw = bytes.fromhex(open(os.path.join(here, "vectors", "merkleblock.hex")).read().strip())
    r = tm.Reader(raw)
    h80 = r.take(80)
    total = r.u32()
    hashes = [r.take(32) for _ in range(r.compact())]
    fb = r.varbytes()
    assert r.done()
    root, matched = merkle.extract_partial(total, hashes, fb)
    assert root[::-1] == p2p.dec_header(h80)["root"]
    assert p2p.pow_ok(h80)
    assert p2p.enc_merkleblock(h80, total, hashes, fb) == raw


@check
def tx_roundtrip():
    # BIP143 native P2WPKH example (signed)
    raw = bytes.fromhex(
        "01000000000102fff7f7881a8099afa6940d42d1e7f6362bec38171ea3edf433541db4e4ad969f00000000494830450221008b9d1dc26ba6a9cb62127b02742fa9d754cd3bebf337f7a55d114c8e5cdd30be022040529b194ba3f9281a99f2b1c0a19c0489bc22ede944ccf4ecbab4cc618ef3ed01eeffffffef51e1b804cc89d182d279655c3aa89e815b1b309fe287d9b2b55d57b90ec68a0100000000ffffffff02202cb206000000001976a9148280b37df378db99f66f85c95a783a76ac7a6d5988ac9093510d000000001976a9143bde42dbee7e4dbe6a21b2d50ce2f0167faa815988ac000247304402203609e17b84f6a7d30c80bfa610b5b4542f32a8a0d5447a12fb1366d7f01cc44a0220573a954c4518331561406f90300e8f3358f51928d43c212a8caed02de67eebee0121025476c2e83188368da1ff3e292e7acafcdb3566bb0ad253f62fc70f07aeee635711000000"
    )
    tx, segwit = tm.parse_tx(raw)
    assert segwit and tm.ser_tx(tx) == raw
    assert len(tx["ins"]) == 2 and len(tx["ins"][1]["witness"]) == 2 and tx["locktime"] == 17
    stripped = tm.ser_tx(tx, witness=False)
    assert tm.parse_tx(stripped)[1] is False
    assert tm.txid(tx) == tm.sha256d(stripped)[::-1]
    assert tm.compact_size(0xFC) == b"\xfc" and tm.compact_size(0xFD) == b"\xfd\xfd\x00" and tm.compact_size(0x10000) == b"\xfe\x00\x00\x01\x00"
    assert tm.push(b"a" * 75)[0] == 75 and tm.push(b"a" * 76)[:2] == b"\x4c\x4c" and tm.push(b"a" * 256)[:3] == b"\x4d\x00\x01"


def run_all():
    fails = []
    for fn in CHECKS:
        try:
            fn()
        except Exception as e:
            fails.append(f"{fn.__name__}: {type(e).__name__}: {e}")
    return fails


BIP143_P2SH_P2WSH_TX = "010000000136641869ca081e70f394c6948e8af409e18b619df2ed74aa106c1ca29787b96e0100000000ffffffff0200e9a435000000001976a914389ffce9cd9ae88dcc0631e88a821ffdbe9bfe2688acc0832f05000000001976a9147480a33f950689af511e6e84c138dbbd3c3ee41588ac00000000"
BIP143_WS = "56210307b8ae49ac90a048e9b53357a2354b3334e9c8bee813ecb98e99a7e07e8c3ba32103b28f0c28bfab54554ae8c658ac5c3e0ce6e79ad336331f78c428dd43eea8449b21034b8113d703413d57761b8b9781957b8c0ac1dfe69f492580ca4195f50376ba4a21033400f6afecb833092a9a21cfdf1ed1376e58c5d1f47de74683123987e967a8f42103a6d48b1131e94ba04d9737d61acdaa1322008af9602b3b14862c07a1789aac162102d8b661b0b3302ee2f162b09e07a55ad5dfbe673a9f01d9f0c19617681024306b56ae"
BIP143_DIGESTS = {
    0x01: "185c0be5263dce5b4bb50a047973c1b6272bfbd0103a89444597dc40b248ee7c",
    0x02: "e9733bc60ea13c95c6527066bb975a2ff29a925e80aa14c213f686cbae5d2f36",
    0x03: "1e1f1c303dc025bd664acb72e583e933fae4cff9148bf78c157d1e8f78530aea",
    0x81: "2a67f03e63a6a422125878b40b82da593be8d4efaafe88ee528af6e5a9955c6e",
    0x82: "781ba15f3779d5542ce8ecb5c18716733a5ee42a6f51488ec96154934e2c890a",
    0x83: "511e8e52ed574121fc1b654970395502128263f62662e076dc6baf05c2e6a99b",
}


@check
def sighash_bip143_all_types():
    from ref import sighash

    tx, _ = tm.parse_tx(bytes.fromhex(BIP143_P2SH_P2WSH_TX))
    ws = bytes.fromhex(BIP143_WS)
    for ht, want in BIP143_DIGESTS.items():
        got = sighash.bip143(tx, 0, ws, 987654321, ht).hex()
        assert got == want, (hex(ht), got)


@check
def sighash_and_secp_against_signed_mainnet_style_tx():
    """BIP143's first example: input 0 is P2PK (legacy digest), input 1 is P2WPKH (BIP143 digest); the published
    signatures must verify under the reference ECDSA with the reference digests."""
    from ref import secp, sighash

    raw = bytes.fromhex(
        "01000000000102fff7f7881a8099afa6940d42d1e7f6362bec38171ea3edf433541db4e4ad969f00000000494830450221008b9d1dc26ba6a9cb62127b02742fa9d754cd3bebf337f7a55d114c8e5cdd30be022040529b194ba3f9281a99f2b1c0a19c0489bc22ede944ccf4ecbab4cc618ef3ed01eeffffffef51e1b804cc89d182d279655c3aa89e815b1b309fe287d9b2b55d57b90ec68a0100000000ffffffff02202cb206000000001976a9148280b37df378db99f66f85c95a783a76ac7a6d5988ac9093510d000000001976a9143bde42dbee7e4dbe6a21b2d50ce2f0167faa815988ac000247304402203609e17b84f6a7d30c80bfa610b5b4542f32a8a0d5447a12fb1366d7f01cc44a0220573a954c4518331561406f90300e8f3358f51928d43c212a8caed02de67eebee0121025476c2e83188368da1ff3e292e7acafcdb3566bb0ad253f62fc70f07aeee635711000000"
    )
    tx, _ = tm.parse_tx(raw)
    # input 1: P2WPKH
    sig, pk = tx["ins"][1]["witness"]
    z = sighash.bip143(tx, 1, tm.spk_p2pkh(tm.hash160(pk)), 600000000, sig[-1])
    assert z.hex() == "c37af31116d1b27caf68aae9e3ac82f1477929014d5b917657d0eb49478cb670", z.hex()
    r, s = secp.parse_der_lax(sig[:-1])
    assert secp.ecdsa_verify(secp.parse_sec(pk), int.from_bytes(z, "big"), r, s)
    assert not secp.ecdsa_verify(secp.parse_sec(pk), int.from_bytes(z, "big") ^ 1, r, s)
    assert not secp.ecdsa_verify(secp.parse_sec(pk), int.from_bytes(z, "big"), r, s + secp.N)
    # input 0: P2PK, legacy digest over the scriptPubKey
    spk0 = bytes.fromhex("2103c9f4836b9a4f77fc0d81f7bcb01b7f1b35916864b9476c241ce9fc198bd25432ac")
    ss = tx["ins"][0]["script_sig"]
    sig0 = ss[1 : 1 + ss[0]]
    unsigned = tm.clone(tx)
    z0 = sighash.legacy(unsigned, 0, spk0, sig0[-1])
    r0, s0 = secp.parse_der_lax(sig0[:-1])
    assert secp.ecdsa_verify(secp.parse_sec(spk0[1:34]), int.from_bytes(z0, "big"), r0, s0)


@check
def sighash_bip341_wallet_vectors():
    import json
    import os

    from ref import secp, sighash

    here = os.path.dirname(os.path.abspath(__file__))
    v = json.load(open(os.path.join(here, "vectors", "bip341_spending.json")))
    tx, _ = tm.parse_tx(bytes.fromhex(v["given"]["rawUnsignedTx"]))
    spent = [(u["amountSats"], bytes.fromhex(u["scriptPubKey"])) for u in v["given"]["utxosSpent"]]
    signed, _ = tm.parse_tx(bytes.fromhex(v["auxiliary"]["fullySignedTx"]))
    seen = set()
    for inp in v["inputSpending"]:
        i = inp["given"]["txinIndex"]
        ht = inp["given"]["hashType"]
        seen.add(ht)
        got = sighash.bip341(tx, i, spent, ht)
        assert got.hex() == inp["intermediary"]["sigHash"], (i, ht, got.hex())
        # tweak + signature
        d = int(inp["given"]["internalPrivkey"], 16)
        mr = bytes.fromhex(inp["given"]["merkleRoot"]) if inp["given"]["merkleRoot"] else b""
        tweaked = secp.taproot_tweak_seckey(d, mr)
        assert tweaked == int(inp["intermediary"]["tweakedPrivkey"], 16)
        q = secp.taproot_tweak_pubkey(secp.xonly(secp.mul(d)), mr)
        assert secp.xonly(q) == spent[i][1][2:]
        wit = signed["ins"][i]["witness"][0]
        assert secp.schnorr_verify(secp.xonly(q), got, wit[:64])
        assert secp.schnorr_sign(tweaked, got) == wit[:64]
    assert seen == {0, 1, 2, 3, 0x81, 0x82, 0x83}, seen
    # legacy (input 2, P2PKH) and BIP143 (input 5, P2WPKH) signatures of the same transaction
    ss = signed["ins"][2]["script_sig"]
    sig = ss[1 : 1 + ss[0]]
    pk = ss[2 + ss[0] :]
    z = sighash.legacy(tx, 2, spent[2][1], sig[-1])
    r, s = secp.parse_der_lax(sig[:-1])
    assert secp.ecdsa_verify(secp.parse_sec(pk), int.from_bytes(z, "big"), r, s)
    sig, pk = signed["ins"][5]["witness"]
    z = sighash.bip143(tx, 5, tm.spk_p2pkh(tm.hash160(pk)), spent[5][0], sig[-1])
    r, s = secp.parse_der_lax(sig[:-1])
    assert secp.ecdsa_verify(secp.parse_sec(pk), int.from_bytes(z, "big"), r, s)


@check
def secp_basics():
    from ref import secp

    assert secp.mul(secp.N) is None and secp.mul(1) == secp.G
    assert secp.add(secp.mul(5), secp.mul(7)) == secp.mul(12)
    assert secp.add(secp.mul(5), secp.neg(secp.mul(5))) is None
    assert secp.add(secp.G, secp.G) == secp.mul(2)
    assert secp.parse_sec(secp.sec(secp.mul(12345))) == secp.mul(12345)
    assert secp.parse_sec(secp.sec(secp.mul(12345), False)) == secp.mul(12345)
    # BIP32 test vector 1: m/0'
    k, c = secp.master_from_seed(bytes.fromhex("000102030405060708090a0b0c0d0e0f"))
    assert k == 0xE8F32E723DECF4051AEFAC8E2C93C9C5B214313817CDB01A1494B917C8436B35
    k1, c1 = secp.ckd_priv(k, c, 0x80000000)
    assert k1 == 0xEDB2E14F9EE77D26DD93B4ECEDE8D16ED408CE149B6CD80B0715A2D911A0AFEA
    k2, c2 = secp.ckd_priv(k1, c1, 1)
    p2, cp2 = secp.ckd_pub(secp.mul(k1), c1, 1)
    assert secp.mul(k2) == p2 and c2 == cp2
    # RFC 6979 / low-S signing agrees with verification
    r, s = secp.ecdsa_sign(12345, 67890)
    assert secp.ecdsa_verify(secp.mul(12345), 67890, r, s) and s <= secp.N // 2


@check
def retarget_known_mainnet():
    # first mainnet retarget that changed difficulty: block 32256 (bits 1d00d86a) from 1d00ffff with the actual timespan of that period
    # (timestamps of blocks 30240 and 32255: 1261130161 and 1262152739)
    assert p2p.retarget(bytes.fromhex("ffff001d"), 1262152739 - 1261130161) == bytes.fromhex("6ad8001d")
    assert p2p.retarget(bytes.fromhex("ffff001d"), p2p.TWO_WEEKS * 10) == bytes.fromhex("ffff001d")
    assert p2p.target_to_compact(0xFFFF << 208) == bytes.fromhex("ffff001d")
    assert p2p.target_to_compact(0x80) == struct.pack("<I", 0x02008000)
