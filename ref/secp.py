"""secp256k1, ECDSA verification, BIP340, BIP32 – an independent implementation (Jacobian coordinates,
pow(x,-1,p)), written from SEC 2 / BIP340 / BIP32. Shares no code with buidl."""
import hashlib
import hmac

P = 2**256 - 2**32 - 977
N = 0xFFFFFFFFFFFFFFFFFFFFFFFFFFFFFFFEBAAEDCE6AF48A03BBFD25E8CD0364141
GX = 0x79BE667EF9DCBBAC55A06295CE870B07029BFCDB2DCE28D959F2815B16F81798
GY = 0x483ADA7726A3C4655DA4FBFC0E1108A8FD17B448A68554199C47D08FFB10D4B8
G = (GX, GY)


def _jdouble(p):
    x, y, z = p
    if y == 0 or z == 0:
        return (0, 1, 0)
    ysq = y * y % P
    s = 4 * x * ysq % P
    m = 3 * x * x % P
    nx = (m * m - 2 * s) % P
    ny = (m * (s - nx) - 8 * ysq * ysq) % P
    nz = 2 * y * z % P
    return (nx, ny, nz)


def _jadd(p, q):
    if p[2] == 0:
        return q
    if q[2] == 0:
        return p
    x1, y1, z1 = p
    x2, y2, z2 = q
    z1s = z1 * z1 % P
    z2s = z2 * z2 % P
    u1 = x1 * z2s % P
    u2 = x2 * z1s % P
    s1 = y1 * z2 * z2s % P
    s2 = y2 * z1 * z1s % P
    if u1 == u2:
        if s1 != s2:
            return (0, 1, 0)
        return _jdouble(p)
    h = (u2 - u1) % P
    r = (s2 - s1) % P
    h2 = h * h % P
    h3 = h * h2 % P
    u1h2 = u1 * h2 % P
    nx = (r * r - h3 - 2 * u1h2) % P
    ny = (r * (u1h2 - nx) - s1 * h3) % P
    nz = h * z1 * z2 % P
    return (nx, ny, nz)


def _to_affine(p):
    if p[2] == 0:
        return None
    zi = pow(p[2], -1, P)
    zi2 = zi * zi % P
    return (p[0] * zi2 % P, p[1] * zi2 * zi % P)


def mul(k, pt=G):
    """k * pt; pt affine tuple or None (infinity). Returns affine or None."""
    if pt is None:
        return None
    k %= N
    acc = (0, 1, 0)
    add = (pt[0], pt[1], 1)
    while k:
        if k & 1:
            acc = _jadd(acc, add)
        add = _jdouble(add)
        k >>= 1
    return _to_affine(acc)


def add(a, b):
    if a is None:
        return b
    if b is None:
        return a
    return _to_affine(_jadd((a[0], a[1], 1), (b[0], b[1], 1)))


def neg(a):
    return None if a is None else (a[0], (-a[1]) % P)


def on_curve(pt):
    return pt is not None and (pt[1] * pt[1] - pt[0] ** 3 - 7) % P == 0


def lift_x(x):
    """BIP340 lift_x: the point with even y, or None."""
    if x >= P:
        return None
    c = (pow(x, 3, P) + 7) % P
    y = pow(c, (P + 1) // 4, P)
    if y * y % P != c:
        return None
    return (x, y if y % 2 == 0 else P - y)


def sec(pt, compressed=True):
    if compressed:
        return bytes([2 + (pt[1] & 1)]) + pt[0].to_bytes(32, "big")
    return b"\x04" + pt[0].to_bytes(32, "big") + pt[1].to_bytes(32, "big")


def parse_sec(b):
    """Returns affine point or None for anything that is not a valid SEC encoding of a curve point."""
    if len(b) == 33 and b[0] in (2, 3):
        x = int.from_bytes(b[1:], "big")
        pt = lift_x(x)
        if pt is None:
            return None
        if (pt[1] & 1) != (b[0] & 1):
            pt = (pt[0], P - pt[1])
        return pt
    if len(b) == 65 and b[0] == 4:
        pt = (int.from_bytes(b[1:33], "big"), int.from_bytes(b[33:], "big"))
        if pt[0] >= P or pt[1] >= P or not on_curve(pt):
            return None
        return pt
    return None


def xonly(pt):
    return pt[0].to_bytes(32, "big")


# ---------------------------------------------------------------- ECDSA


def ecdsa_verify(pub, z, r, s):
    """Strict: 1 <= r, s < n (consensus does not require low S)."""
    if pub is None or not (1 <= r < N and 1 <= s < N):
        return False
    z %= N
    si = pow(s, -1, N)
    pt = add(mul(z * si % N), mul(r * si % N, pub))
    if pt is None:
        return False
    return pt[0] % N == r


def parse_der_lax(sig):
    """Parse the DER structure 0x30 len 0x02 rlen r 0x02 slen s; returns (r, s) or None. (No strict-DER policy.)"""
    try:
        if sig[0] != 0x30:
            return None
        ln = sig[1]
        if ln + 2 != len(sig):
            return None
        if sig[2] != 0x02:
            return None
        rl = sig[3]
        r = int.from_bytes(sig[4 : 4 + rl], "big")
        if sig[4 + rl] != 0x02:
            return None
        sl = sig[5 + rl]
        s = int.from_bytes(sig[6 + rl : 6 + rl + sl], "big")
        if 6 + rl + sl != len(sig):
            return None
        return r, s
    except IndexError:
        return None


def rfc6979_k(secret, z):
    k = b"\x00" * 32
    v = b"\x01" * 32
    if z > N:
        z -= N
    zb = z.to_bytes(32, "big")
    sb = secret.to_bytes(32, "big")
    k = hmac.new(k, v + b"\x00" + sb + zb, hashlib.sha256).digest()
    v = hmac.new(k, v, hashlib.sha256).digest()
    k = hmac.new(k, v + b"\x01" + sb + zb, hashlib.sha256).digest()
    v = hmac.new(k, v, hashlib.sha256).digest()
    while True:
        v = hmac.new(k, v, hashlib.sha256).digest()
        cand = int.from_bytes(v, "big")
        if 1 <= cand < N:
            return cand
        k = hmac.new(k, v + b"\x00", hashlib.sha256).digest()
        v = hmac.new(k, v, hashlib.sha256).digest()


def ecdsa_sign(secret, z):
    k = rfc6979_k(secret, z)
    r = mul(k)[0] % N
    s = (z + r * secret) * pow(k, -1, N) % N
    if s > N // 2:
        s = N - s
    return r, s


# ---------------------------------------------------------------- BIP340


def tagged_hash(tag, msg):
    t = hashlib.sha256(tag.encode()).digest()
    return hashlib.sha256(t + t + msg).digest()


def schnorr_verify(pk32, msg, sig64):
    if len(pk32) != 32 or len(sig64) != 64:
        return False
    pt = lift_x(int.from_bytes(pk32, "big"))
    r = int.from_bytes(sig64[:32], "big")
    s = int.from_bytes(sig64[32:], "big")
    if pt is None or r >= P or s >= N:
        return False
    e = int.from_bytes(tagged_hash("BIP0340/challenge", sig64[:32] + pk32 + msg), "big") % N
    rr = add(mul(s), mul(N - e, pt))
    if rr is None or rr[1] % 2 != 0 or rr[0] != r:
        return False
    return True


def schnorr_sign(secret, msg, aux=b"\x00" * 32):
    d0 = secret
    pt = mul(d0)
    d = d0 if pt[1] % 2 == 0 else N - d0
    t = (d ^ int.from_bytes(tagged_hash("BIP0340/aux", aux), "big")).to_bytes(32, "big")
    k0 = int.from_bytes(tagged_hash("BIP0340/nonce", t + xonly(pt) + msg), "big") % N
    if k0 == 0:
        raise ValueError("k0 = 0")
    r = mul(k0)
    k = k0 if r[1] % 2 == 0 else N - k0
    e = int.from_bytes(tagged_hash("BIP0340/challenge", xonly(r) + xonly(pt) + msg), "big") % N
    return xonly(r) + ((k + e * d) % N).to_bytes(32, "big")


# ---------------------------------------------------------------- BIP341 tweak


def taproot_tweak_pubkey(internal_x32, merkle_root=b""):
    pt = lift_x(int.from_bytes(internal_x32, "big"))
    if pt is None:
        return None
    t = int.from_bytes(tagged_hash("TapTweak", internal_x32 + merkle_root), "big")
    if t >= N:
        return None
    q = add(pt, mul(t))
    return q  # affine (parity = q[1] & 1)


def taproot_tweak_seckey(secret, merkle_root=b""):
    pt = mul(secret)
    d = secret if pt[1] % 2 == 0 else N - secret
    t = int.from_bytes(tagged_hash("TapTweak", xonly(pt) + merkle_root), "big")
    return (d + t) % N


# ---------------------------------------------------------------- BIP32


def hash160(b):
    return hashlib.new("ripemd160", hashlib.sha256(b).digest()).digest()


def ckd_priv(k, c, i):
    if i >= 0x80000000:
        data = b"\x00" + k.to_bytes(32, "big") + i.to_bytes(4, "big")
    else:
        data = sec(mul(k)) + i.to_bytes(4, "big")
    I = hmac.new(c, data, hashlib.sha512).digest()
    il = int.from_bytes(I[:32], "big")
    return (il + k) % N, I[32:]


def ckd_pub(pt, c, i):
    if i >= 0x80000000:
        raise ValueError("hardened from public")
    I = hmac.new(c, sec(pt) + i.to_bytes(4, "big"), hashlib.sha512).digest()
    il = int.from_bytes(I[:32], "big")
    return add(mul(il), pt), I[32:]


def master_from_seed(seed):
    I = hmac.new(b"Bitcoin seed", seed, hashlib.sha512).digest()
    return int.from_bytes(I[:32], "big"), I[32:]


def parse_path(path):
    out = []
    for comp in path.split("/")[1:]:
        if comp == "":
            continue
        if comp[-1] in "'hH":
            out.append(int(comp[:-1]) + 0x80000000)
        else:
            out.append(int(comp))
    return out
