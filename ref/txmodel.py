"""Plain-data transaction model, written from the Bitcoin wire format; shares no code with buidl.

A transaction is a dict:
  {"version": int, "ins": [{"txid": bytes32 (display order), "vout": int, "script_sig": bytes,
                            "sequence": int, "witness": [bytes, ...]}],
   "outs": [{"amount": int, "spk": bytes}], "locktime": int}
"""
import hashlib
import struct


def sha256(b):
    return hashlib.sha256(b).digest()


def sha256d(b):
    return hashlib.sha256(hashlib.sha256(b).digest()).digest()


def hash160(b):
    return hashlib.new("ripemd160", hashlib.sha256(b).digest()).digest()


def compact_size(n):
    if n < 0:
        raise ValueError("negative")
    if n < 0xFD:
        return bytes([n])
    if n <= 0xFFFF:
        return b"\xfd" + struct.pack("<H", n)
    if n <= 0xFFFFFFFF:
        return b"\xfe" + struct.pack("<I", n)
    if n <= 0xFFFFFFFFFFFFFFFF:
        return b"\xff" + struct.pack("<Q", n)
    raise ValueError("too large")


class Reader:
    def __init__(self, data, pos=0):
        self.d = data
        self.p = pos

    def take(self, n):
        if n < 0 or self.p + n > len(self.d):
            raise ValueError("truncated")
        b = self.d[self.p : self.p + n]
        self.p += n
        return b

    def u8(self):
        return self.take(1)[0]

    def u16(self):
        return struct.unpack("<H", self.take(2))[0]

    def u32(self):
        return struct.unpack("<I", self.take(4))[0]

    def u64(self):
        return struct.unpack("<Q", self.take(8))[0]

    def compact(self, canonical=False):
        b = self.u8()
        if b < 0xFD:
            return b
        if b == 0xFD:
            v = self.u16()
            if canonical and v < 0xFD:
                raise ValueError("non-canonical compact size")
            return v
        if b == 0xFE:
            v = self.u32()
            if canonical and v <= 0xFFFF:
                raise ValueError("non-canonical compact size")
            return v
        v = self.u64()
        if canonical and v <= 0xFFFFFFFF:
            raise ValueError("non-canonical compact size")
        return v

    def varbytes(self, canonical=False):
        return self.take(self.compact(canonical))

    def done(self):
        return self.p == len(self.d)


def push(data):
    """Minimal push of a byte string (BIP62 rule 3 minus the OP_N forms, which callers choose explicitly)."""
    n = len(data)
    if n == 0:
        return b"\x00"
    if n <= 75:
        return bytes([n]) + data
    if n <= 0xFF:
        return b"\x4c" + bytes([n]) + data
    if n <= 0xFFFF:
        return b"\x4d" + struct.pack("<H", n) + data
    return b"\x4e" + struct.pack("<I", n) + data


def script(*parts):
    """Build a script: ints are opcodes, bytes are minimally pushed."""
    out = b""
    for p in parts:
        if isinstance(p, int):
            out += bytes([p])
        else:
            out += push(p)
    return out


def ser_in(i):
    return i["txid"][::-1] + struct.pack("<I", i["vout"]) + compact_size(len(i["script_sig"])) + i["script_sig"] + struct.pack("<I", i["sequence"])


def ser_out(o):
    return struct.pack("<Q", o["amount"]) + compact_size(len(o["spk"])) + o["spk"]


def ser_witness(items):
    out = compact_size(len(items))
    for it in items:
        out += compact_size(len(it)) + it
    return out


def has_witness(tx):
    return any(i.get("witness") for i in tx["ins"])


def ser_tx(tx, witness=None):
    """witness=None: segwit format iff some input has a witness (BIP144); True/False forces."""
    if witness is None:
        witness = has_witness(tx)
    out = struct.pack("<I", tx["version"] & 0xFFFFFFFF)
    if witness:
        out += b"\x00\x01"
    out += compact_size(len(tx["ins"]))
    for i in tx["ins"]:
        out += ser_in(i)
    out += compact_size(len(tx["outs"]))
    for o in tx["outs"]:
        out += ser_out(o)
    if witness:
        for i in tx["ins"]:
            out += ser_witness(i.get("witness") or [])
    out += struct.pack("<I", tx["locktime"])
    return out


def txid(tx):
    """display-order (byte-reversed) double-SHA256 of the witness-stripped serialisation"""
    return sha256d(ser_tx(tx, witness=False))[::-1]


def wtxid(tx):
    return sha256d(ser_tx(tx))[::-1]


def parse_tx_at(data, pos=0, strict=True):
    """Parse one transaction starting at data[pos]; returns (tx, segwit, end_pos)."""
    r = Reader(data, pos)
    version = r.u32()
    segwit = False
    n_in = r.compact(strict)
    if n_in == 0:
        flag = r.u8()
        if flag != 1:
            raise ValueError("bad segwit flag")
        segwit = True
        n_in = r.compact(strict)
    ins = []
    for _ in range(n_in):
        h = r.take(32)[::-1]
        vout = r.u32()
        ss = r.varbytes(strict)
        seq = r.u32()
        ins.append({"txid": h, "vout": vout, "script_sig": ss, "sequence": seq, "witness": []})
    outs = []
    for _ in range(r.compact(strict)):
        amt = r.u64()
        spk = r.varbytes(strict)
        outs.append({"amount": amt, "spk": spk})
    if segwit:
        for i in ins:
            i["witness"] = [r.varbytes(strict) for _ in range(r.compact(strict))]
    locktime = r.u32()
    return {"version": version, "ins": ins, "outs": outs, "locktime": locktime}, segwit, r.p


def parse_tx(data, strict=True):
    """Strict parser: whole buffer must be consumed, compact sizes canonical."""
    tx, segwit, end = parse_tx_at(data, 0, strict)
    if strict and end != len(data):
        raise ValueError("trailing bytes")
    return tx, segwit


def clone(tx):
    return {
        "version": tx["version"],
        "ins": [dict(i, witness=list(i.get("witness") or [])) for i in tx["ins"]],
        "outs": [dict(o) for o in tx["outs"]],
        "locktime": tx["locktime"],
    }


# ---- standard scriptPubKeys (byte level)


def spk_p2pkh(h160):
    return b"\x76\xa9\x14" + h160 + b"\x88\xac"


def spk_p2sh(h160):
    return b"\xa9\x14" + h160 + b"\x87"


def spk_p2wpkh(h160):
    return b"\x00\x14" + h160


def spk_p2wsh(h256):
    return b"\x00\x20" + h256


def spk_p2tr(x32):
    return b"\x51\x20" + x32


def op_n(n):
    if n == 0:
        return 0
    if 1 <= n <= 16:
        return 0x50 + n
    raise ValueError(n)


def multisig_script(m, pubkeys):
    return bytes([op_n(m)]) + b"".join(push(pk) for pk in pubkeys) + bytes([op_n(len(pubkeys)), 0xAE])
