"""Strict Bitcoin P2P envelope parser/serialiser and message layouts, from the protocol documentation.
Shares no code with buidl."""
import struct

from ref.txmodel import Reader, compact_size, sha256d

MAGIC = {
    "mainnet": bytes.fromhex("f9beb4d9"),
    "testnet": bytes.fromhex("0b110907"),
    "signet": bytes.fromhex("0a03cf40"),
    "regtest": bytes.fromhex("fabfb5da"),
}


def envelope(magic, command, payload, checksum=None, declared_len=None):
    if len(command) > 12:
        raise ValueError("command too long")
    if checksum is None:
        checksum = sha256d(payload)[:4]
    if declared_len is None:
        declared_len = len(payload)
    return magic + command + b"\x00" * (12 - len(command)) + struct.pack("<I", declared_len) + checksum + payload


def command_wellformed(raw12):
    """name followed only by NUL padding, non-empty name allowed to be empty (0-byte command)."""
    name = raw12.rstrip(b"\x00")
    return b"\x00" not in name


def parse_next(buf, off, magic, closed):
    """Incremental strict parse of one envelope at buf[off:].

    Returns (status, info):
      ("ok", (raw12, payload, new_off))
      ("clean_eof", None)           closed and no byte left
      ("pending", None)             not enough bytes yet and stream still open
      ("bad_magic", None)           4 magic bytes present and wrong
      ("truncated", stage)          closed before the envelope was complete (stage: magic/header/payload)
      ("bad_checksum", None)
    """
    avail = len(buf) - off
    if avail == 0:
        return ("clean_eof", None) if closed else ("pending", None)
    if avail < 4:
        return ("truncated", "magic") if closed else ("pending", None)
    if buf[off : off + 4] != magic:
        return ("bad_magic", None)
    if avail < 24:
        return ("truncated", "header") if closed else ("pending", None)
    raw12 = buf[off + 4 : off + 16]
    (length,) = struct.unpack("<I", buf[off + 16 : off + 20])
    checksum = buf[off + 20 : off + 24]
    if avail < 24 + length:
        return ("truncated", "payload") if closed else ("pending", None)
    payload = buf[off + 24 : off + 24 + length]
    if sha256d(payload)[:4] != checksum:
        return ("bad_checksum", None)
    return ("ok", (raw12, payload, off + 24 + length))


def parse_all(buf, magic, closed=True):
    out = []
    off = 0
    while True:
        st, info = parse_next(buf, off, magic, closed)
        if st != "ok":
            return out, st, off
        raw12, payload, off = info
        out.append((raw12, payload))


# ---------------------------------------------------------------- layouts (decode client output)


def dec_version(p):
    r = Reader(p)
    d = {}
    d["version"] = r.u32()
    d["services"] = r.u64()
    d["timestamp"] = r.u64()
    d["recv_services"] = r.u64()
    d["recv_ip16"] = r.take(16)
    d["recv_port"] = struct.unpack(">H", r.take(2))[0]  # network byte order per protocol
    d["recv_port_raw"] = p[r.p - 2 : r.p]
    d["send_services"] = r.u64()
    d["send_ip16"] = r.take(16)
    d["send_port_raw"] = r.take(2)
    d["nonce"] = r.take(8)
    d["user_agent"] = r.varbytes()
    d["latest_block"] = r.u32()
    d["relay"] = r.u8() if not r.done() else None
    if not r.done():
        raise ValueError("trailing bytes in version")
    return d


def enc_version(version=70015, services=0, timestamp=0, nonce=b"\x00" * 8, user_agent=b"/ref:0.1/", height=0, relay=1):
    out = struct.pack("<IQQ", version, services, timestamp)
    out += struct.pack("<Q", 0) + b"\x00" * 10 + b"\xff\xff" + b"\x7f\x00\x00\x01" + struct.pack(">H", 8333)
    out += struct.pack("<Q", services) + b"\x00" * 10 + b"\xff\xff" + b"\x7f\x00\x00\x01" + struct.pack(">H", 8333)
    out += nonce + compact_size(len(user_agent)) + user_agent + struct.pack("<I", height) + bytes([relay])
    return out


def dec_getheaders(p):
    r = Reader(p)
    version = r.u32()
    n = r.compact()
    locators = [r.take(32)[::-1] for _ in range(n)]
    stop = r.take(32)[::-1]
    if not r.done():
        raise ValueError("trailing bytes in getheaders")
    return {"version": version, "count": n, "locators": locators, "stop": stop}


def dec_getdata(p):
    r = Reader(p)
    n = r.compact()
    items = []
    for _ in range(n):
        t = r.u32()
        h = r.take(32)[::-1]
        items.append((t, h))
    if not r.done():
        raise ValueError("trailing bytes in getdata")
    return items


def dec_getcf(p, with_height=True):
    r = Reader(p)
    ftype = r.u8()
    height = r.u32() if with_height else None
    stop = r.take(32)[::-1]
    if not r.done():
        raise ValueError("trailing bytes in getcf*")
    return {"type": ftype, "height": height, "stop": stop}


def dec_filterload(p):
    r = Reader(p)
    bits = r.varbytes()
    nfuncs = r.u32()
    tweak = r.u32()
    flags = r.u8()
    if not r.done():
        raise ValueError("trailing bytes in filterload")
    return {"filter": bits, "funcs": nfuncs, "tweak": tweak, "flags": flags}


def enc_headers(headers80):
    out = compact_size(len(headers80))
    for h in headers80:
        out += h + b"\x00"
    return out


def enc_merkleblock(header80, total, hashes_internal, flag_bytes):
    out = header80 + struct.pack("<I", total) + compact_size(len(hashes_internal))
    for h in hashes_internal:
        out += h
    out += compact_size(len(flag_bytes)) + flag_bytes
    return out


def enc_cfilter(ftype, block_hash_display, filter_bytes):
    return bytes([ftype]) + block_hash_display[::-1] + compact_size(len(filter_bytes)) + filter_bytes


def enc_cfheaders(ftype, stop_hash_display, prev_header, filter_hashes):
    return bytes([ftype]) + stop_hash_display[::-1] + prev_header + compact_size(len(filter_hashes)) + b"".join(filter_hashes)


def enc_cfcheckpt(ftype, stop_hash_display, headers):
    return bytes([ftype]) + stop_hash_display[::-1] + compact_size(len(headers)) + b"".join(headers)


def enc_inv(items):
    out = compact_size(len(items))
    for t, h in items:
        out += struct.pack("<I", t) + h[::-1]
    return out


# ---------------------------------------------------------------- block headers / proof of work


def header80(version, prev_display, root_display, timestamp, bits4, nonce4):
    return struct.pack("<I", version & 0xFFFFFFFF) + prev_display[::-1] + root_display[::-1] + struct.pack("<I", timestamp) + bits4 + nonce4


def dec_header(h):
    if len(h) != 80:
        raise ValueError("header length")
    return {
        "version": struct.unpack("<I", h[:4])[0],
        "prev": h[4:36][::-1],
        "root": h[36:68][::-1],
        "time": struct.unpack("<I", h[68:72])[0],
        "bits": h[72:76],
        "nonce": h[76:80],
    }


def header_hash(h80):
    """display order"""
    return sha256d(h80)[::-1]


def compact_to_target(bits4):
    """Consensus arith_uint256::SetCompact (returns (target, negative, overflow))."""
    (n,) = struct.unpack("<I", bits4)
    size = n >> 24
    word = n & 0x007FFFFF
    if size <= 3:
        word >>= 8 * (3 - size)
        target = word
    else:
        target = word << (8 * (size - 3))
    negative = word != 0 and (n & 0x00800000) != 0
    overflow = word != 0 and (size > 34 or (word > 0xFF and size > 33) or (word > 0xFFFF and size > 32))
    return target, negative, overflow


def pow_ok(h80):
    target, neg, ovf = compact_to_target(h80[72:76])
    if neg or ovf or target == 0:
        return False
    return int.from_bytes(sha256d(h80), "little") <= target


def grind(version, prev_display, root_display, timestamp, bits4, start_nonce=0, want_valid=True):
    n = start_nonce
    while True:
        h = header80(version, prev_display, root_display, timestamp, bits4, struct.pack("<I", n & 0xFFFFFFFF))
        # strict '<' keeps us clear of the boundary between '<' (library) and '<=' (consensus)
        t, _, _ = compact_to_target(bits4)
        v = int.from_bytes(sha256d(h), "little")
        if (v < t) == want_valid and v != t:
            return h
        n += 1


TWO_WEEKS = 14 * 24 * 3600
POW_LIMIT = 0xFFFF << 208


def target_to_compact(t):
    """arith_uint256::GetCompact (non-negative)."""
    size = (t.bit_length() + 7) // 8
    if size <= 3:
        compact = t << (8 * (3 - size))
    else:
        compact = t >> (8 * (size - 3))
    if compact & 0x00800000:
        compact >>= 8
        size += 1
    return struct.pack("<I", compact | (size << 24))


def retarget(bits4, actual_timespan, pow_limit=POW_LIMIT):
    """CalculateNextWorkRequired (without the testnet rules)."""
    t = min(max(actual_timespan, TWO_WEEKS // 4), TWO_WEEKS * 4)
    target, _, _ = compact_to_target(bits4)
    new = target * t // TWO_WEEKS
    if new > pow_limit:
        new = pow_limit
    return target_to_compact(new)
