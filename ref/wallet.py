"""HD multisig/single-key wallet model over ref.secp BIP32: cosigners, account xpubs (base58check), child keys,
receive/change scripts for p2pkh / p2wpkh / p2sh-p2wpkh / p2sh / p2wsh / p2sh-p2wsh. Shares no code with buidl."""
import hashlib

from ref import secp, txmodel as tm

B58 = "123456789ABCDEFGHJKLMNPQRSTUVWXYZabcdefghijkmnopqrstuvwxyz"
XPUB_VERSION = {"mainnet": bytes.fromhex("0488b21e"), "testnet": bytes.fromhex("043587cf")}
P2SH_VERSION = {"mainnet": b"\x05", "testnet": b"\xc4"}


def b58check(payload):
    raw = payload + hashlib.sha256(hashlib.sha256(payload).digest()).digest()[:4]
    n = int.from_bytes(raw, "big")
    s = ""
    while n:
        n, r = divmod(n, 58)
        s = B58[r] + s
    pad = len(raw) - len(raw.lstrip(b"\x00"))
    return "1" * pad + s


class Cosigner:
    def __init__(self, seed, account_path="m/45'/0", network="mainnet"):
        self.seed = seed
        self.network = network
        k, c = secp.master_from_seed(seed)
        self.master = (k, c)
        self.fingerprint = secp.hash160(secp.sec(secp.mul(k)))[:4]
        self.account_path = account_path
        idxs = secp.parse_path(account_path)
        parent_pub = secp.mul(k)
        for i in idxs:
            parent_pub = secp.mul(k)
            k, c = secp.ckd_priv(k, c, i)
        self.account_priv = (k, c)
        self.account_pub = (secp.mul(k), c)
        self.account_depth = len(idxs)
        self.account_child = idxs[-1] if idxs else 0
        self.account_parent_fp = secp.hash160(secp.sec(parent_pub))[:4] if idxs else b"\x00" * 4

    def xpub(self):
        pt, c = self.account_pub
        payload = XPUB_VERSION[self.network] + bytes([self.account_depth]) + self.account_parent_fp + self.account_child.to_bytes(4, "big") + c + secp.sec(pt)
        return b58check(payload)

    def child_pub(self, branch, index):
        pt, c = self.account_pub
        pt, c = secp.ckd_pub(pt, c, branch)
        pt, c = secp.ckd_pub(pt, c, index)
        return pt

    def child_priv(self, branch, index):
        k, c = self.account_priv
        k, c = secp.ckd_priv(k, c, branch)
        k, c = secp.ckd_priv(k, c, index)
        return k

    def child_path(self, branch, index):
        return f"{self.account_path}/{branch}/{index}"

    def pub_at(self, idxs_from_root):
        """public key at an arbitrary list of indexes below the *root*, if it lies under the account (unhardened below it); else None"""
        acc = secp.parse_path(self.account_path)
        # the components above the account xpub cannot be verified from public data (they may be hardened): like any verifier that
        # holds only xpubs, take the path relative to the xpub's depth
        if len(idxs_from_root) < len(acc):
            return None
        pt, c = self.account_pub
        for i in idxs_from_root[len(acc) :]:
            if i >= 0x80000000:
                return None
            pt, c = secp.ckd_pub(pt, c, i)
        return pt


def spend_script(kind, m, pubkeys_sec):
    """-> (scriptPubKey, redeem_script or None, witness_script or None). Multisig keys are BIP67-sorted."""
    if kind == "p2pkh":
        return tm.spk_p2pkh(tm.hash160(pubkeys_sec[0])), None, None
    if kind == "p2wpkh":
        return tm.spk_p2wpkh(tm.hash160(pubkeys_sec[0])), None, None
    if kind == "p2sh_p2wpkh":
        redeem = tm.spk_p2wpkh(tm.hash160(pubkeys_sec[0]))
        return tm.spk_p2sh(tm.hash160(redeem)), redeem, None
    ms = tm.multisig_script(m, sorted(pubkeys_sec))
    if kind == "p2sh":
        return tm.spk_p2sh(tm.hash160(ms)), ms, None
    if kind == "p2wsh":
        return tm.spk_p2wsh(tm.sha256(ms)), None, ms
    if kind == "p2sh_p2wsh":
        redeem = tm.spk_p2wsh(tm.sha256(ms))
        return tm.spk_p2sh(tm.hash160(redeem)), redeem, ms
    raise ValueError(kind)


def p2sh_address(spk, network):
    return b58check(P2SH_VERSION[network] + spk[2:22])
