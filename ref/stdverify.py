"""Reference validity of *standard-template* spends only (not a script interpreter):
P2PKH, P2SH m-of-n CHECKMULTISIG, P2WPKH, P2SH-P2WPKH, P2WSH / P2SH-P2WSH m-of-n CHECKMULTISIG, P2TR key path,
P2TR script path with a <key> CHECKSIG leaf or a BIP342 k-of-n CHECKSIGADD leaf.

'Authorised' here means: the scriptSig/witness has the template's shape, every committed hash matches, and the
required signatures verify (lax DER, no low-S/strict-DER policy) over the specification digest for their own
hash type. Anything that is not of a standard shape is reported as not authorised.
"""
from ref import secp, sighash as rs, txmodel as tm


def parse_pushes(script, lenient=False):
    """push-only script -> list of byte strings (OP_0 -> b'', OP_1..16/1NEGATE -> number bytes); None if any non-push opcode or
    truncation. lenient=True: a final push that runs past the end yields the bytes that are there (an encoding defect that does
    not bear on whether the spend is *authorised*, which is all this module judges)."""
    if lenient:
        strict = parse_pushes(script)
        if strict is not None:
            return strict
        # retry with the script padded so that the last push is complete, then cut the padding off the last item
        for pad in range(1, 600):
            items = parse_pushes(script + b"\x00" * pad)
            if items is not None and items and len(items[-1]) >= pad:
                items[-1] = items[-1][: len(items[-1]) - pad]
                return items
        return None
    out = []
    p = 0
    while p < len(script):
        op = script[p]
        if op == 0:
            out.append(b"")
            p += 1
        elif 1 <= op <= 75:
            if p + 1 + op > len(script):
                return None
            out.append(script[p + 1 : p + 1 + op])
            p += 1 + op
        elif op == 0x4C:
            if p + 2 > len(script):
                return None
            n = script[p + 1]
            if p + 2 + n > len(script):
                return None
            out.append(script[p + 2 : p + 2 + n])
            p += 2 + n
        elif op == 0x4D:
            if p + 3 > len(script):
                return None
            n = int.from_bytes(script[p + 1 : p + 3], "little")
            if p + 3 + n > len(script):
                return None
            out.append(script[p + 3 : p + 3 + n])
            p += 3 + n
        elif op == 0x4F:
            out.append(b"\x81")
            p += 1
        elif 0x51 <= op <= 0x60:
            out.append(bytes([op - 0x50]))
            p += 1
        else:
            return None
    return out


def parse_multisig(script):
    """OP_m <33/65-byte key>... OP_n OP_CHECKMULTISIG -> (m, [keys]) or None"""
    if len(script) < 3 or script[-1] != 0xAE:
        return None
    if not (0x51 <= script[0] <= 0x60) or not (0x51 <= script[-2] <= 0x60):
        return None
    m = script[0] - 0x50
    n = script[-2] - 0x50
    keys = []
    p = 1
    while p < len(script) - 2:
        ln = script[p]
        if ln not in (33, 65) or p + 1 + ln > len(script) - 2:
            return None
        keys.append(script[p + 1 : p + 1 + ln])
        p += 1 + ln
    if len(keys) != n or not (1 <= m <= n):
        return None
    return m, keys


def ecdsa_sig_ok(sig, pk, digest_fn):
    """sig = DER || hashtype; digest_fn(hash_type) -> 32 bytes"""
    if len(sig) < 9:
        return False
    rs_ = secp.parse_der_lax(sig[:-1])
    if rs_ is None:
        return False
    pt = secp.parse_sec(pk)
    if pt is None:
        return False
    z = int.from_bytes(digest_fn(sig[-1]), "big")
    return secp.ecdsa_verify(pt, z, rs_[0], rs_[1])


def checkmultisig(sigs, m, keys, digest_fn):
    """Consensus CHECKMULTISIG matching: signatures in key order, each against the remaining keys."""
    if len(sigs) != m:
        return False
    ik = 0
    for sig in sigs:
        matched = False
        while ik < len(keys):
            k = keys[ik]
            ik += 1
            if ecdsa_sig_ok(sig, k, digest_fn):
                matched = True
                break
        if not matched:
            return False
    return True


def script_path_ok(tx, idx, spent, stack, script, cb, annex, authorisation_only=False):
    if len(cb) < 33 or (len(cb) - 33) % 32 or len(cb) > 33 + 128 * 32:
        return False, "control block length"
    lv = cb[0] & 0xFE
    par = cb[0] & 1
    internal = cb[1:33]
    leaf_hash = rs.tapleaf_hash(script, lv)
    h = leaf_hash
    for j in range((len(cb) - 33) // 32):
        h = rs.tapbranch_hash(h, cb[33 + 32 * j : 65 + 32 * j])
    q = secp.taproot_tweak_pubkey(internal, h)
    if q is None or secp.xonly(q) != spent[idx][1][2:] or (q[1] & 1) != par:
        return False, "control block does not commit to the output key (x or parity)"
    if lv != 0xC0:
        return False, "unknown leaf version (not a standard template)"

    def schnorr_ok(x, sig):
        if len(sig) not in (64, 65) or (len(sig) == 65 and sig[64] == 0):
            return False
        ht = sig[64] if len(sig) == 65 else 0
        d = rs.bip341(tx, idx, spent, ht, annex=annex, leaf_hash=leaf_hash)
        return d is not None and secp.schnorr_verify(x, d, sig[:64])

    if len(script) == 34 and script[0] == 32 and script[33] == 0xAC:
        if len(stack) != 1 or stack[0] == b"":
            return False, "stack"
        return schnorr_ok(script[1:33], stack[0]), "signature"
    p = 0
    xs = []
    while p + 34 <= len(script) and script[p] == 32 and script[p + 33] in (0xAC, 0xBA):
        if (script[p + 33] == 0xAC) != (p == 0):
            return False, "template"
        xs.append(script[p + 1 : p + 33])
        p += 34
    if len(xs) < 2 or p + 2 != len(script) or script[p + 1] != 0x87 or not (0x51 <= script[p] <= 0x60):
        return False, "not a standard tapscript template"
    k = script[p] - 0x50
    if len(stack) != len(xs):
        return False, "stack size"
    count = 0
    for x, sig in zip(xs, reversed(stack)):
        if sig == b"":
            continue
        if not schnorr_ok(x, sig):
            if authorisation_only:
                # consensus (BIP342) fails the script here; as a question of AUTHORISATION the element simply is no signature
                continue
            return False, "invalid non-empty signature"
        count += 1
    if authorisation_only:
        return count >= k, "threshold"
    return count == k, "threshold"


def verify_input(tx, idx, spent, authorisation_only=False):
    """tx: ref.txmodel dict; spent: [(amount, scriptPubKey)] for every input. -> (authorised: bool, reason)
    Default: the consensus verdict for the standard templates. authorisation_only=True answers the weaker question the soundness
    clause of C06 asks - does the spend carry at least the required valid signatures by distinct script keys - and so does not
    count a junk non-empty element in a tapscript CHECKSIGADD slot (consensus-invalid, but not a lack of authorisation) against it."""
    inp = tx["ins"][idx]
    amount, spk = spent[idx]
    ss = inp["script_sig"]
    wit = inp.get("witness") or []

    def legacy(script_code):
        return lambda ht: rs.legacy(tx, idx, script_code, ht)

    def v0(script_code):
        return lambda ht: rs.bip143(tx, idx, script_code, amount, ht)

    def p2wpkh(h160, witness):
        if len(witness) != 2:
            return False, "p2wpkh witness shape"
        sig, pk = witness
        if tm.hash160(pk) != h160:
            return False, "pubkey hash"
        return ecdsa_sig_ok(sig, pk, v0(tm.spk_p2pkh(h160))), "signature"

    def p2wsh(h256, witness):
        if len(witness) < 2:
            return False, "p2wsh witness shape"
        ws = witness[-1]
        if tm.sha256(ws) != h256:
            return False, "witness script hash"
        ms = parse_multisig(ws)
        if ms is None:
            return False, "witness script is not a multisig template"
        return checkmultisig(witness[1:-1], ms[0], ms[1], v0(ws)), "multisig"

    if len(spk) == 25 and spk[:3] == b"\x76\xa9\x14" and spk[23:] == b"\x88\xac":
        items = parse_pushes(ss, lenient=True)
        if items is None or len(items) != 2 or wit and any(wit):
            return False, "p2pkh scriptSig shape"
        sig, pk = items
        if tm.hash160(pk) != spk[3:23]:
            return False, "pubkey hash"
        return ecdsa_sig_ok(sig, pk, legacy(spk)), "signature"
    if len(spk) == 23 and spk[:2] == b"\xa9\x14" and spk[22] == 0x87:
        items = parse_pushes(ss, lenient=True)
        if not items:
            return False, "p2sh scriptSig shape"
        redeem = items[-1]
        if tm.hash160(redeem) != spk[2:22]:
            return False, "redeem script hash"
        if len(redeem) == 22 and redeem[:2] == b"\x00\x14":
            if len(items) != 1:
                return False, "p2sh-p2wpkh scriptSig must be the redeem script only"
            return p2wpkh(redeem[2:], wit)
        if len(redeem) == 34 and redeem[:2] == b"\x00\x20":
            if len(items) != 1:
                return False, "p2sh-p2wsh scriptSig must be the redeem script only"
            return p2wsh(redeem[2:], wit)
        ms = parse_multisig(redeem)
        if ms is None:
            return False, "redeem script is not a standard template"
        if len(items) < 2:
            return False, "p2sh multisig scriptSig shape"
        return checkmultisig(items[1:-1], ms[0], ms[1], legacy(redeem)), "multisig"
    if len(spk) == 22 and spk[:2] == b"\x00\x14":
        if ss:
            return False, "non-empty scriptSig on a witness output"
        return p2wpkh(spk[2:], wit)
    if len(spk) == 34 and spk[:2] == b"\x00\x20":
        if ss:
            return False, "non-empty scriptSig on a witness output"
        return p2wsh(spk[2:], wit)
    if len(spk) == 34 and spk[:2] == b"\x51\x20":
        if ss:
            return False, "non-empty scriptSig on a witness output"
        w = list(wit)
        if not w:
            return False, "empty witness"
        annex = None
        if len(w) >= 2 and len(w[-1]) > 0 and w[-1][0] == 0x50:
            annex = w.pop()
        if len(w) == 1:
            sig = w[0]
            if len(sig) not in (64, 65) or (len(sig) == 65 and sig[64] == 0):
                return False, "key path signature length"
            ht = sig[64] if len(sig) == 65 else 0
            d = rs.bip341(tx, idx, spent, ht, annex=annex)
            return (d is not None and secp.schnorr_verify(spk[2:], d, sig[:64])), "key path signature"
        return script_path_ok(tx, idx, spent, w[:-2], w[-2], w[-1], annex, authorisation_only)
    return False, "not a standard output type"
