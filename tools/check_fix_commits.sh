#!/bin/bash
# usage: tools/check_fix_commits.sh [base-commit]   -- run at an idle moment
# For every fix: commit of /repo (oldest first) check out a scratch worktree and run the two CLI test files plus test_psbt/test_tx/test_script
# (the fast files most repairs touch); prints one line per commit. The complete suite on HEAD is tools/run_suite.sh /repo.
BASE=${1:-$(git -C /repo log --format=%h --grep='^fix:' | tail -1)~1}
WT=$(mktemp -d /tmp/fixwt.XXXXXX); rmdir $WT
git -C /repo worktree add -q --detach $WT HEAD || exit 3
trap "git -C /repo worktree remove --force $WT" EXIT
for c in $(git -C /repo log --reverse --format=%h $BASE..HEAD); do
  git -C $WT checkout -q $c
  while [ "$(cut -d' ' -f1 /proc/loadavg | cut -d. -f1)" -ge 6 ]; do sleep 10; done
  CLI=$(cd $WT && PYTHONPATH=$WT timeout 900 /venv/bin/python -m pytest -q -p no:cacheprovider -p no:rerunfailures --timeout=900 test_multiwallet.py test_singlesweep.py 2>&1 | tail -1)
  if echo "$CLI" | grep -q failed; then sleep 15; CLI="$CLI | retry: $(cd $WT && PYTHONPATH=$WT timeout 900 /venv/bin/python -m pytest -q -p no:cacheprovider -p no:rerunfailures --timeout=900 test_multiwallet.py test_singlesweep.py 2>&1 | tail -1)"; fi
  UNIT=$(cd $WT && PYTHONPATH=$WT timeout 1800 /venv/bin/python -m pytest -q -p no:cacheprovider -p no:rerunfailures -n 6 --timeout=900 buidl/test/test_psbt.py buidl/test/test_psbt_helper.py buidl/test/test_tx.py buidl/test/test_script.py buidl/test/test_network.py buidl/test/test_shamir.py buidl/test/test_bcur.py 2>&1 | tail -1)
  echo "$c $(git -C /repo log -1 --format=%s $c | cut -c1-70) | cli: $CLI | unit: $UNIT"
done
