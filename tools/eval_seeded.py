#!/usr/bin/env python3
"""For every seeded change under /verif/seeded/<id>/: apply it in a scratch worktree of /repo HEAD, run the property's check against it (VERIF_REPO), and record in
meta.json which violation signatures the check reported (detected_by). Evidence of these runs goes to /tmp, never to /verif/evidence."""
import json
import os
import re
import subprocess
import sys

VERIF = os.path.dirname(os.path.dirname(os.path.abspath(__file__)))
tier = sys.argv[1] if len(sys.argv) > 1 else "quick"
only = sys.argv[2:] or None
head = subprocess.run(["git", "-C", VERIF, "rev-parse", "--short", "HEAD"], capture_output=True, text=True).stdout.strip()
for sid in sorted(os.listdir(os.path.join(VERIF, "seeded"))):
    d = os.path.join(VERIF, "seeded", sid)
    mp = os.path.join(d, "meta.json")
    if not os.path.exists(mp) or (only and sid not in only):
        continue
    meta = json.load(open(mp))
    prop = meta["property"]
    wt = subprocess.run(["mktemp", "-d", "/tmp/evalwt.XXXXXX"], capture_output=True, text=True).stdout.strip()
    os.rmdir(wt)
    subprocess.run(["git", "-C", "/repo", "worktree", "add", "-q", "--detach", wt, "HEAD"], check=True)
    try:
        ap = subprocess.run(["git", "-C", wt, "apply", os.path.join(d, "patch.diff")], capture_output=True, text=True)
        if ap.returncode:
            # later fix: commits may have touched neighbouring lines: try a 3-way merge of the seeded change
            ap = subprocess.run(["git", "-C", wt, "apply", "-3", os.path.join(d, "patch.diff")], capture_output=True, text=True)
        if ap.returncode:
            print(sid, "patch does not apply:", ap.stderr[:200])
            continue
        env = dict(os.environ, VERIF_EVIDENCE_DIR="/tmp/ev_seeded", VERIF_REPO=wt)
        p = subprocess.run(["/venv/bin/python", os.path.join(VERIF, "check.py"), prop, "--tier", tier], capture_output=True, text=True, env=env, timeout=7200)
    finally:
        subprocess.run(["git", "-C", "/repo", "worktree", "remove", "--force", wt])
    # only VIOLATION reports (not the KNOWN-FINDING lines, which also carry a signature= field)
    lines = [l for l in p.stdout.splitlines() if l.startswith("  signature=") or "violation signature not minimised:" in l]
    sigs = sorted(set(re.findall(r"signature(?: not minimised:|=)\s*([A-Za-z0-9_/=.+-]+)", "\n".join(lines))))
    if os.environ.get("EVAL_NO_WRITE"):
        # second opinion under another VERIF_SEED: report only
        print(sid, "exit", p.returncode, sigs[:4], "(not recorded)")
        continue
    meta["detected_by"] = {"check": prop, "tier": tier, "exit_code": p.returncode, "violation_signatures": sigs, "verif_commit": head}
    json.dump(meta, open(mp, "w"), indent=1)
    print(sid, "exit", p.returncode, sigs[:4])
