#!/usr/bin/env python3
"""Seeded changes were written against earlier commits of /repo. After later fix: commits a patch may only apply with a 3-way merge:
this tool re-bases such patches onto the current HEAD (apply -3 in a scratch worktree, git diff), checks that the demo still passes on the
pristine tree and fails with the re-based patch, and rewrites patch.diff (the original is kept as patch.orig.diff). usage: tools/refresh_seeded.py [ids...]"""
import json, os, shutil, subprocess, sys

VERIF = os.path.dirname(os.path.dirname(os.path.abspath(__file__)))
only = sys.argv[1:] or None
head = subprocess.run(["git", "-C", "/repo", "rev-parse", "--short", "HEAD"], capture_output=True, text=True).stdout.strip()
for sid in sorted(os.listdir(os.path.join(VERIF, "seeded"))):
    d = os.path.join(VERIF, "seeded", sid)
    pf = os.path.join(d, "patch.diff")
    if not os.path.exists(pf) or (only and sid not in only):
        continue
    wt = subprocess.run(["mktemp", "-d", "/tmp/rbwt.XXXXXX"], capture_output=True, text=True).stdout.strip()
    os.rmdir(wt)
    subprocess.run(["git", "-C", "/repo", "worktree", "add", "-q", "--detach", wt, "HEAD"], check=True)
    try:
        if subprocess.run(["git", "-C", wt, "apply", "--check", pf], capture_output=True).returncode == 0:
            continue
        env = dict(os.environ, PYTHONPATH=wt)
        p0 = subprocess.run(["/venv/bin/python", os.path.join(d, "demo.py")], cwd=wt, env=env, capture_output=True, timeout=1800).returncode
        ap = subprocess.run(["git", "-C", wt, "apply", "-3", pf], capture_output=True, text=True)
        if ap.returncode:
            print(sid, "does not apply even with a 3-way merge:", ap.stderr[:200].replace("\n", " "))
            continue
        diff = subprocess.run(["git", "-C", wt, "diff", "HEAD"], capture_output=True, text=True).stdout
        p1 = subprocess.run(["/venv/bin/python", os.path.join(d, "demo.py")], cwd=wt, env=env, capture_output=True, timeout=1800).returncode
        if p0 != 0 or p1 == 0 or not diff.strip():
            print(sid, f"re-based patch unusable: demo pristine exit={p0}, patched exit={p1}")
            continue
        if not os.path.exists(os.path.join(d, "patch.orig.diff")):
            shutil.copy(pf, os.path.join(d, "patch.orig.diff"))
        open(pf, "w").write(diff)
        mp = os.path.join(d, "meta.json")
        if os.path.exists(mp):
            meta = json.load(open(mp))
            meta["rebased"] = f"patch.diff re-based onto /repo {head} with a 3-way merge (original kept as patch.orig.diff); demo re-checked: pristine exit {p0}, patched exit {p1}"
            json.dump(meta, open(mp, "w"), indent=1)
        print(sid, "re-based onto", head)
    finally:
        subprocess.run(["git", "-C", "/repo", "worktree", "remove", "--force", wt])
