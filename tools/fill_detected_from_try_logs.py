#!/usr/bin/env python3
"""Round 7 (time-boxed): fills meta.json:detected_by of freshly kept seeds from the logs tools/try_seeded.sh wrote for them (the same quick
check, run against a scratch worktree of /repo HEAD with the patch applied), instead of running tools/eval_seeded.py once more.
usage: tools/fill_detected_from_try_logs.py LOGDIR id=logname ..."""
import json, os, re, subprocess, sys
VERIF = os.path.dirname(os.path.dirname(os.path.abspath(__file__)))
head = subprocess.run(["git", "-C", VERIF, "rev-parse", "--short", "HEAD"], capture_output=True, text=True).stdout.strip()
logdir = sys.argv[1]
for pair in sys.argv[2:]:
    sid, name = pair.split("=")
    mp = os.path.join(VERIF, "seeded", sid, "meta.json")
    lp = os.path.join(logdir, f"try_{name}.log")
    if not (os.path.exists(mp) and os.path.exists(lp)):
        print(sid, "missing meta or log"); continue
    txt = open(lp).read()
    sigs = sorted(set(re.findall(r"^  signature=([A-Za-z0-9_/=.+-]+)", txt, re.M)))
    nviol = len(re.findall(r"^VIOLATION", txt, re.M))
    meta = json.load(open(mp))
    meta["detected_by"] = {"check": meta["property"], "tier": "quick", "exit_code": 1 if nviol else 0, "violation_signatures": sigs, "verif_commit": head,
                           "how": "tools/try_seeded.sh (check.py <prop> --tier quick with VERIF_REPO = scratch worktree of /repo HEAD + patch.diff)"}
    json.dump(meta, open(mp, "w"), indent=1)
    print(sid, nviol, sigs[:3])
