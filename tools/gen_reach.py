#!/usr/bin/env python3
"""Regenerates /verif/reach.json: per claimed property, the fault kinds, probes and oracles that fired in EVERY one of the given
seeds of the quick tier on the unchanged tree. Each later run reports which of these names it did not reach (REACH-GAP, evidence
coverage.reach): a probe stuck at zero means the workload or fault mix must change.
usage: [REACH_PROPS="C06 C13"] tools/gen_reach.py [seeds...]   (default 0 1 2)"""
import json, os, subprocess, sys, tempfile

VERIF = os.path.dirname(os.path.dirname(os.path.abspath(__file__)))
PROPS = ["C04", "C05", "C06", "C10", "C11", "C13", "C15", "C17", "C19", "C20"]
seeds = [int(x) for x in sys.argv[1:]] or [0, 1, 2]
out = {}
if os.environ.get("REACH_PROPS"):
    # only these properties are re-measured; the others keep their baseline
    out = json.load(open(os.path.join(VERIF, "reach.json")))
    PROPS = os.environ["REACH_PROPS"].split()
for p in PROPS:
    sets = {"faults": None, "probes": None, "oracles": None}
    for sd in seeds:
        d = tempfile.mkdtemp(prefix="reach_")
        env = dict(os.environ, VERIF_SEED=str(sd), VERIF_EVIDENCE_DIR=d)
        r = subprocess.run(["/venv/bin/python", os.path.join(VERIF, "check.py"), p, "--tier", "quick"], env=env, capture_output=True, text=True)
        if r.returncode != 0:
            print(f"{p} seed {sd}: exit {r.returncode}; not used", file=sys.stderr)
            continue
        cov = json.load(open(os.path.join(d, p + ".json")))["coverage"]
        for fam, key in (("faults", "faults_fired"), ("probes", "probes"), ("oracles", "oracle_evaluations")):
            names = {k for k, v in cov[key].items() if v}
            sets[fam] = names if sets[fam] is None else sets[fam] & names
        subprocess.run(["rm", "-rf", d])
    out[p] = {fam: sorted(v or []) for fam, v in sets.items()}
    print(p, {k: len(v) for k, v in out[p].items()}, flush=True)
json.dump(out, open(os.path.join(VERIF, "reach.json"), "w"), indent=1, sort_keys=True)
