#!/bin/bash
# usage: tools/try_seeded.sh <PROP> <dir-with-patch.diff-and-demo.py> [tier]
# Confirms the seeded change in a scratch worktree of /repo HEAD (demo passes pristine, fails patched) and runs the property's check
# against that patched worktree (VERIF_REPO), so /repo itself is never modified and concurrent sweeps are not disturbed.
# Evidence of these runs goes to /tmp, never to /verif/evidence. Prints a one-line verdict.
set -u
PROP=$1; D=$2; TIER=${3:-quick}
WT=$(mktemp -d /tmp/seedwt.XXXXXX); rmdir $WT
git -C /repo worktree add -q --detach $WT HEAD || exit 3
cleanup() { git -C /repo worktree remove --force $WT 2>/dev/null; }
trap cleanup EXIT
( cd $WT && PYTHONPATH=$WT timeout 900 /venv/bin/python $D/demo.py >/dev/null 2>&1 ); P0=$?
if ! git -C $WT apply $D/patch.diff 2>/tmp/apply.err; then echo "SEEDED $D: patch does not apply: $(head -3 /tmp/apply.err)"; exit 3; fi
( cd $WT && PYTHONPATH=$WT timeout 900 /venv/bin/python $D/demo.py >/dev/null 2>&1 ); P1=$?
echo "demo pristine exit=$P0 patched exit=$P1"
LOG=/tmp/seeded_${PROP}_$$.log
( cd /verif && VERIF_REPO=$WT VERIF_EVIDENCE_DIR=/tmp/ev_seeded timeout 6000 /venv/bin/python check.py $PROP --tier $TIER 2>&1 | grep -v conda > $LOG )
grep -E "^(VIOLATION|HARNESS)" $LOG | cut -c1-200
grep -E "^  signature" $LOG | head -5
echo "SEEDED $D: check $PROP $TIER: $(grep -c '^VIOLATION' $LOG) violations"
rm -f $LOG
