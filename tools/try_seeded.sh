#!/bin/bash
# usage: tools/try_seeded.sh <PROP> <dir-with-patch.diff-and-demo.py> [tier]
# Confirms the seeded change in a scratch worktree of /repo HEAD (demo passes pristine, fails patched), then applies it to /repo,
# runs the property's check, and restores /repo. Prints a one-line verdict.
set -u
PROP=$1; D=$2; TIER=${3:-quick}
WT=$(mktemp -d /tmp/seedwt.XXXXXX); rmdir $WT
git -C /repo worktree add -q --detach $WT HEAD || exit 3
cleanup() { git -C /repo worktree remove --force $WT 2>/dev/null; }
trap cleanup EXIT
( cd $WT && PYTHONPATH=$WT timeout 900 /venv/bin/python $D/demo.py >/dev/null 2>&1 ); P0=$?
if ! git -C $WT apply $D/patch.diff 2>/tmp/apply.err; then echo "SEEDED $D: patch does not apply: $(head -3 /tmp/apply.err)"; exit 3; fi
( cd $WT && PYTHONPATH=$WT timeout 900 /venv/bin/python $D/demo.py >/dev/null 2>&1 ); P1=$?
echo "demo pristine exit=$P0 patched exit=$P1"
cleanup; trap - EXIT
if [ -n "$(git -C /repo status --porcelain --untracked-files=no)" ]; then echo "/repo dirty, abort"; exit 3; fi
git -C /repo apply $D/patch.diff || exit 3
( cd /verif && VERIF_EVIDENCE_DIR=/tmp/ev_seeded VERIF_TIER=$TIER timeout 3000 /venv/bin/python check.py $PROP --tier $TIER 2>&1 | grep -v conda > /tmp/seeded_$PROP.log ); RC=${PIPESTATUS[0]}
git -C /repo checkout -- .
grep -E "^(VIOLATION|KNOWN|HARNESS)" /tmp/seeded_$PROP.log | cut -c1-200
grep -E "^  signature" /tmp/seeded_$PROP.log | head -5
echo "SEEDED $D: check $PROP $TIER exit=$(grep -c '^VIOLATION' /tmp/seeded_$PROP.log) violations"
