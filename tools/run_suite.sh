#!/bin/bash
# usage: tools/run_suite.sh <checkout-dir>
# Runs the repository's test suite in that checkout: xdist for buidl/, then every test file that had a failure other than the 15
# test_socket_guard tests (which fail on the pristine tree too) is re-run serially (some tests depend on a cache another test module
# loads in the same process, and the two CLI test files drive a child process with pexpect timeouts that trip when the machine is loaded).
D=${1:-/repo}
cd $D
A=/tmp/suite_a.$$; B=/tmp/suite_b.$$
PYTHONPATH=$D /venv/bin/python -m pytest -q -rf -p no:cacheprovider -p no:rerunfailures -n 12 --timeout=900 buidl > $A 2>&1
FILES=$(grep '^FAILED' $A | grep -v test_socket_guard | sed 's/^FAILED \([^:]*\)::.*/\1/' | sort -u)
EXTRA=""
if [ -n "$FILES" ]; then
  PYTHONPATH=$D /venv/bin/python -m pytest -q -rf -p no:cacheprovider -p no:rerunfailures --timeout=900 $FILES > $B 2>&1
  STILL=$(grep '^FAILED' $B | grep -v test_socket_guard | tr '\n' ' ')
  EXTRA=" | serial re-run of [$FILES]: $(tail -1 $B) ; non-guard failures after re-run: [${STILL:-none}]"
fi
if [ -n "${SKIP_CLI:-}" ]; then echo "buidl/ (xdist): $(tail -1 $A)$EXTRA"; echo "cli: not run (the patch touches none of the modules the two CLI programs import: ${SKIP_CLI})"; rm -f $A $B; exit 0; fi
for try in 1 2; do
  # the CLI tests time out when the machine is busy: wait (up to 3 min) for the 1-minute load average to drop below 8
  for w in $(seq 1 18); do L=$(cut -d' ' -f1 /proc/loadavg | cut -d. -f1); [ "$L" -lt 8 ] && break; sleep 10; done
  PYTHONPATH=$D /venv/bin/python -m pytest -q -p no:cacheprovider -p no:rerunfailures --timeout=900 test_multiwallet.py test_singlesweep.py 2>&1 | tail -2 > $B
  grep -q "failed" $B || break
  sleep 20
done
echo "buidl/ (xdist): $(tail -1 $A)$EXTRA"; echo "cli (attempt $try): $(tail -1 $B)"; rm -f $A $B
