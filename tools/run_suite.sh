#!/bin/bash
# usage: tools/run_suite.sh <checkout-dir>  -- runs the repository's test suite in that checkout (xdist for buidl/, serial for the two
# CLI test files, which drive a child process with pexpect timeouts and are retried when the machine is loaded)
D=${1:-/repo}
cd $D
PYTHONPATH=$D /venv/bin/python -m pytest -q -p no:cacheprovider -p no:rerunfailures -n 12 --timeout=900 buidl 2>&1 | tail -3 > /tmp/suite_a.$$
for try in 1 2 3 4; do
  PYTHONPATH=$D /venv/bin/python -m pytest -q -p no:cacheprovider -p no:rerunfailures --timeout=900 test_multiwallet.py test_singlesweep.py 2>&1 | tail -2 > /tmp/suite_b.$$
  grep -q "failed" /tmp/suite_b.$$ || break
  sleep 20
done
echo "buidl/: $(tail -1 /tmp/suite_a.$$)"; echo "cli (attempt $try): $(tail -1 /tmp/suite_b.$$)"; rm -f /tmp/suite_a.$$ /tmp/suite_b.$$
