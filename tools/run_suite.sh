#!/bin/bash
# usage: tools/run_suite.sh <checkout-dir>  -- runs the repository's test suite in that checkout (xdist for buidl/, serial for the two CLI test files)
D=${1:-/repo}
cd $D
PYTHONPATH=$D /venv/bin/python -m pytest -q -p no:cacheprovider -p no:rerunfailures -n 14 --timeout=900 buidl 2>&1 | tail -3 > /tmp/suite_a.$$ 
PYTHONPATH=$D /venv/bin/python -m pytest -q -p no:cacheprovider -p no:rerunfailures --timeout=900 test_multiwallet.py test_singlesweep.py 2>&1 | tail -2 > /tmp/suite_b.$$
echo "buidl/: $(tail -1 /tmp/suite_a.$$)"; echo "cli: $(tail -1 /tmp/suite_b.$$)"; rm -f /tmp/suite_a.$$ /tmp/suite_b.$$
