#!/usr/bin/env python3
"""Re-runs only the two CLI test files (pexpect-driven, they time out when the machine is loaded) for seeded changes whose recorded
suite result shows CLI failures, in a scratch worktree with the patch applied, and updates the meta.json string. Run when the machine is idle.
usage: tools/revalidate_cli.py [ids...]"""
import json, os, re, subprocess, sys, time

VERIF = os.path.dirname(os.path.dirname(os.path.abspath(__file__)))
only = sys.argv[1:] or None
for sid in sorted(os.listdir(os.path.join(VERIF, "seeded"))):
    d = os.path.join(VERIF, "seeded", sid)
    mp = os.path.join(d, "meta.json")
    if not os.path.exists(mp) or (only and sid not in only):
        continue
    meta = json.load(open(mp))
    s = meta["confirmed"]["test_suite_with_patch"]
    m = re.search(r"cli \((?:re-run at idle, )?attempt \d+\): ([^()]*)$", s.strip())
    if m and "failed" not in m.group(1) and "No such file" not in s:
        continue
    wt = subprocess.run(["mktemp", "-d", "/tmp/cliwt.XXXXXX"], capture_output=True, text=True).stdout.strip()
    os.rmdir(wt)
    subprocess.run(["git", "-C", "/repo", "worktree", "add", "-q", "--detach", wt, "HEAD"], check=True)
    try:
        ap = subprocess.run(["git", "-C", wt, "apply", os.path.join(d, "patch.diff")], capture_output=True, text=True)
        if ap.returncode:
            ap = subprocess.run(["git", "-C", wt, "apply", "-3", os.path.join(d, "patch.diff")], capture_output=True, text=True)
        if ap.returncode:
            print(sid, "patch does not apply")
            continue
        res = None
        for attempt in range(1, 4):
            while float(open("/proc/loadavg").read().split()[0]) > 6:
                time.sleep(10)
            p = subprocess.run(["/venv/bin/python", "-m", "pytest", "-q", "-p", "no:cacheprovider", "-p", "no:rerunfailures", "--timeout=900", "test_multiwallet.py", "test_singlesweep.py"],
                               cwd=wt, env=dict(os.environ, PYTHONPATH=wt), capture_output=True, text=True)
            res = p.stdout.strip().splitlines()[-1] if p.stdout.strip() else "no output"
            if "failed" not in res:
                break
        base = re.sub(r"\s*cli \((?:re-run at idle, )?attempt \d+\):.*$", "", s.strip())
        base = re.sub(r"\s*cli: deferred.*$", "", base)
        base = re.sub(r"/verif/tools/run_suite.sh: line \d+: ", "", base).replace(": No such file or directory", "")
        meta["confirmed"]["test_suite_with_patch"] = f"{base} cli (re-run at idle, attempt {attempt}): {res}"
        json.dump(meta, open(mp, "w"), indent=1)
        print(sid, res)
    finally:
        subprocess.run(["git", "-C", "/repo", "worktree", "remove", "--force", wt])
