#!/bin/bash
# usage: tools/sweep.sh "<props>" "<seeds>" [tier]   -- no-false-alarm sweep: runs each check for each VERIF_SEED, prints only alarms and a summary line
PROPS=${1:-"C04 C05 C06 C10 C11 C13 C15 C17 C19 C20"}; SEEDS=${2:-"1 2 3"}; TIER=${3:-quick}
cd "$(dirname "$0")/.."
export VERIF_EVIDENCE_DIR=${VERIF_EVIDENCE_DIR:-/tmp/ev_sweep}
for p in $PROPS; do for s in $SEEDS; do
  OUT=$(VERIF_SEED=$s timeout 6000 /venv/bin/python check.py $p --tier $TIER 2>&1 | grep -v conda)
  RC=$?
  echo "$OUT" | grep -E "^(VIOLATION|HARNESS)|^  signature=" | cut -c1-240
  echo "sweep $p seed=$s tier=$TIER: $(echo "$OUT" | grep -c '^VIOLATION') violations, $(echo "$OUT" | grep -c '^HARNESS') harness errors; $(echo "$OUT" | grep '^\[' | cut -c1-160)"
done; done
