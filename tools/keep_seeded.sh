#!/bin/bash
# usage: tools/keep_seeded.sh <seed-id> <srcdir> <PROP> "<needs-to-manifest text>"
# Confirms (demo pristine ok / patched fails / suite passes with patch) in a scratch worktree, then stores under /verif/seeded/<seed-id>/
set -u
ID=$1; SRC=$2; PROP=$3; NEEDS=$4
DST=/verif/seeded/$ID; mkdir -p $DST
cp $SRC/patch.diff $SRC/demo.py $DST/; [ -f $SRC/notes.md ] && cp $SRC/notes.md $DST/
WT=$(mktemp -d /tmp/keepwt.XXXXXX); rmdir $WT
git -C /repo worktree add -q --detach $WT HEAD || exit 3
( cd $WT && PYTHONPATH=$WT timeout 900 /venv/bin/python $DST/demo.py >/dev/null 2>&1 ); P0=$?
git -C $WT apply $DST/patch.diff || { echo "patch does not apply"; git -C /repo worktree remove --force $WT; exit 3; }
( cd $WT && PYTHONPATH=$WT timeout 900 /venv/bin/python $DST/demo.py >/dev/null 2>&1 ); P1=$?
SUITE=$(/verif/tools/run_suite.sh $WT 2>&1 | grep -v conda | tr '\n' ' ')
git -C /repo worktree remove --force $WT
HEAD=$(git -C /repo rev-parse --short HEAD)
python3 - <<PY
import json
json.dump({"id":"$ID","property":"$PROP","needs_to_manifest":"""$NEEDS""","repo_head_when_confirmed":"$HEAD",
 "confirmed":{"demo_exit_pristine":$P0,"demo_exit_patched":$P1,"test_suite_with_patch":"""$SUITE""",
 "how":"tools/keep_seeded.sh: scratch git worktree of /repo HEAD under /tmp; demo.py run before and after git apply patch.diff; tools/run_suite.sh (pytest -n 14 on buidl/ plus the two CLI test files serially; 15 test_socket_guard tests fail on the pristine tree too)"},
 "detected_by": []}, open("$DST/meta.json","w"), indent=1)
PY
echo "kept $ID: demo $P0/$P1 suite: $SUITE"
