#!/usr/bin/env python3
"""Regenerates /verif/MANIFEST.json from the table below (kept in one place so it stays valid)."""
import json
import os

VERIF = os.path.dirname(os.path.dirname(os.path.abspath(__file__)))

NA_PURE = {
    "C01": "pure function of (secret, digest, r, s): RFC 6979 removes the only randomness, no state survives a call, no I/O, clock or party; nothing for a simulator to schedule or fault (DESIGN.md section 6)",
    "C02": "pure function of (secret, message, aux); the only shared state (tag-hash cache) is value-deterministic, so no history or interleaving can change a result",
    "C03": "pure group arithmetic and point codecs; exhaustive small-field enumeration / differential testing fit, simulation does not",
    "C07": "pure interpreter semantics quantified over programs; each evaluation works on copies, no cross-evaluation state, no I/O (loss of those copies is caught under C06)",
    "C08": "pure BIP32 derivation and codecs; the only memo (HDPublicKey._raw) is of an immutable value",
    "C09": "single-shot decode(encode(x)) / decode(corrupt(encode(x))) claims; no process for a fault to land in, no state, no ordering",
    "C12": "pure tagged-hash and point arithmetic over an immutable tree; nothing to schedule or fault",
    "C14": "pure functions of entropy / words / passphrase; secure_mnemonic's clock and RNG are not part of the statement",
    "C16": "pure descriptor text generation, checksum and derivation; permuting key records is an input permutation, not a schedule",
    "C18": "pure filter encodings and hash functions; BloomFilter.add only sets bits, so no history can un-insert an element",
}

CLAIMED = {
    "C19": {
        "category": "exploration",
        "text": "Real SimpleNode/NetworkEnvelope/message classes run over a simulated TCP byte stream against a stub peer; a strict reference parser on exactly the delivered bytes is the model (refinement, oracle P1), outbound bytes are decoded by independent layouts (P2), protocol reactions (P3) and bounded liveness against an honest peer (P4). Seeded search over sessions, chatter, fragmentation, EOF, corruption and Byzantine envelopes, plus exhaustive enumeration of EOF at every offset and one bit flip at every byte of fixed base sessions. A clean batch is evidence, not proof.",
        "design_ref": "DESIGN.md 5.1, 6 (C19)",
        "note": "Trusted: CPython, hashlib, ref/p2p.py strict parser and layouts, the simulator core. The primitive codecs are exercised in-stream by the 'fields' operation (records of compact sizes across every width boundary, var-strings and LE/BE integers encoded by the library, echoed, decoded field by field; all ordered pairs of boundary values enumerated) and header objects through observe/mutate histories. One open known finding (version port byte order). Commands are ASCII names (no NUL bytes inside).",
        "technique": "deterministic simulation of a TCP session with fault injection; refinement against a strict reference parser on the delivered bytes",
    },
    "C17": {
        "category": "exploration",
        "text": "SPV sessions of the real client (get_filtered_txs, wait_for(HeadersMessage/Block), MerkleBlock.is_valid/proved_txs, HeadersMessage.is_valid, Block.check_pow/validate_merkle_root) against an honest or lying stub peer serving a synthetic chain: every validated proof yields only txids of the block (M1), honest proofs yield exactly the matched ids (M2), header verdicts equal the reference PoW/linkage (M3), retargets the consensus formula (M4); a proof object that is validated, altered in place, validated again, repaired ... always answers for its current fields (M5). Alterations are the property's catalogue injected in flight.",
        "design_ref": "DESIGN.md 5.1, 6 (C17)",
        "note": "Trusted: ref/merkle.py (BIP37 builder, consensus root), ref/p2p.py (SetCompact, PoW), stub peer's ground truth. merkle_root/bits/retarget equalities are pure and sampled through the served chain and the retarget / header_edits operations (incl. negative, zero and overflowing compact targets served by a Byzantine peer). One open known finding (a proof over the block's first interior level validates: leaf/interior ambiguity). BIP37 strictness beyond the statement (left-over hashes or flag bits) is not demanded. The proof-of-work verdict at hash == target (and target-1, target+1) is observed with buidl.block.hash256 replaced by a stub for that one call, because real SHA-256 cannot be steered there. Trees of 1..8 leaves x all match subsets (thorough: 1..10) are enumerated, and blocks of 1000-5000 transactions with dense match sets go through the wire parser (hash and flag-byte counts across the one-byte compact-size boundary).",
        "technique": "deterministic simulation of an SPV session against a Byzantine peer; ground-truth oracle from the peer's chain",
    },
}

CLAIMED["C20"] = {
    "category": "exploration",
    "text": "Senders (real BCURMulti/BCURSingle encode) -> simulated camera channel with frame loss, duplication, rotation, reordering, corruption, cross-talk and relabelling -> naive and collecting receivers calling the real parse: whatever parse returns is bit-for-bit one sender's payload (A1/A2), a clean in-order delivery always reassembles for every length / chunk size / CBOR class (A3), and a looping sender is reassembled within two clean loops after faults stop (A4). Seeded search plus enumeration of every sequence of parts for part counts <= 4 and of every position x replacement character of sampled parts.",
    "design_ref": "DESIGN.md 5.7, 6 (C20)",
    "note": "Trusted: CPython, binascii/hashlib, the simulator core; the collecting receiver is harness code. CBOR prefixes are checked for invertibility only. Senders may redraw the animation (repeated encode() on one object or on a new object for the same payload), and the owner of a returned frame list may use it up (pop, reverse, overwrite) before the next encode(). The partition of the text into frames (labels, empty or over-long parts) is counted, not demanded: the statement promises reassembly. A clean batch is evidence, not proof.",
    "technique": "deterministic simulation of a lossy one-way frame channel with fault injection; ground-truth oracle on the reassembled payload",
}
CLAIMED["C15"] = {
    "category": "exploration",
    "text": "Dealer (real generate_shares under a simulated RNG incl. adversarial and replayed streams), n custodians, an arrival channel with loss, duplication, order, word corruption, swaps, truncation and mixing of splits, and a recoverer that attempts recovery between arrivals and reuses one ShareSet with several passphrases: >= k distinct genuine shares alone always recover the exact mnemonic (V1), < k never return (V2), <= 3-word corruption and mixed splits are rejected (V3), anything returned is the original (V4), share text / encryption round-trip and recovery is history-independent (V5). Published SLIP39 vectors serve as shares from another implementation. Seeded search plus enumeration over (k, n) pairs and subset sizes k-1, k, k+1, n.",
    "design_ref": "DESIGN.md 5.6, 6 (C15)",
    "note": "Trusted: CPython, hashlib PBKDF2/HMAC, the dealer's own mnemonic as ground truth, the published vectors (data). 2^-32 digest coincidences are treated as impossible. Interpolation identities are checked on the share points of each run (not the GF(256) tables exhaustively). Share objects are exported repeatedly; n shares are expected for every (k, n) including k = 1. Shares written by a reference encoder with any legal header (two-level group/member fields) must parse, read back field by field and encode back to their own text; an honest split that raises is a violation.",
    "technique": "deterministic simulation of dealer/custodians/recoverer with RNG seam and share-channel fault injection; ground-truth oracle",
}

CLAIMED["C05"] = {
    "category": "exploration",
    "text": "One Tx object per run and a generated history of digest queries (original algorithm, BIP143, BIP341/342; direct methods and the dispatcher; hash types 0,1,2,3,0x81,0x82,0x83; eight input kinds, annex on/off) interleaved with edits of every committed and uncommitted field, reverts, clone and re-parse. Every query is compared with an independent implementation of the three specifications on a plain-data mirror of the current state (H1, refinement) and with the same query on a freshly re-parsed copy (H2, history independence).",
    "design_ref": "DESIGN.md 5.3, 6 (C05)",
    "note": "Trusted: CPython, hashlib, ref/sighash.py + ref/txmodel.py (self-tested on the BIP143 digests for all six hash types, the BIP341 wallet vectors and published signatures). Coverage is sampled, not exhaustive; OP_CODESEPARATOR and non-standard script codes are not generated. Spent outputs are handed to the object or (fetched plans) looked up by it in the fetcher cache while the outpoint moves; taproot leaves are replaced by hand and through initialize_p2tr_multisig; output scripts with non-minimal pushes are included.",
    "technique": "deterministic simulation of an operation history on one object; step-by-step refinement against a reference model",
}
CLAIMED["C06"] = {
    "category": "exploration",
    "text": "Spends of all eight signable output types are built and signed through the library's helpers inside generated histories of sign / verify / edit / revert / clone / re-parse. verify_input must be True exactly when the input still carries its signature and the current reference digest equals the signed one, stable under repetition and on a re-parsed copy (H3); every fresh spend verifies and its signatures verify under an independent ECDSA/BIP340 verifier over the reference digest (H4).",
    "design_ref": "DESIGN.md 5.3, 6 (C06)",
    "note": "Trusted: ref/secp.py, ref/sighash.py, ref/stdverify.py (standard templates only, not an interpreter). The property's forgery catalogue is applied as in-flight tampering of a signed transaction between signer and verifier (T1: receiver says valid => reference finds the spend authorised), enumerated per output type in the quick tier; malformed-encoding-only changes that leave the authorisation intact are not demanded to fail. Quorums are limited to n <= 3 keys for speed. Legacy outputs also with uncompressed public keys; spends signed by the reference with any hash type (the library's ECDSA signers only make SIGHASH_ALL) are signed states too, judged after edits (enumerated: every output type x hash type x edits of the other input's outpoint / sequence); the type byte is also changed in its undefined bits.",
    "technique": "deterministic simulation of sign/edit/verify histories on one object; verdict oracle from a reference digest model",
}

CLAIMED["C04"] = {
    "category": "exploration",
    "text": "The real TxFetcher (fetch, lazy value/script/fee look-ups, dump_cache/load_cache, process-wide cache) runs against stub block explorers that serve a generated chain database honestly or with one of 15 response behaviours (wrong tx, tweaked field, truncation at k, garbage, not hex, empty, trailing bytes, whitespace/upper case, witness stripped/malleated, non-canonical re-encoding, HTTP error, timeout, connection error, slow), with restarts and torn cache-file writes: every returned or cached transaction hashes to the id it was requested under (F1), honest canonical responses are accepted and re-serialise byte-exactly (F2), segwit ids are witness-stripped hashes and survive witness malleation (F3), the cache survives dump/restart/load (F4). Truncation at every offset of sampled responses is enumerated.",
    "design_ref": "DESIGN.md 5.2, 6 (C04)",
    "note": "Trusted: ref/txmodel.py. Only the fetcher clause and txid definition are decided by simulation; the for-all-encodings round-trip clauses are sampled through the served transactions (push lengths 0..520 incl. 75/76/255/256, counts up to 300, witness items up to 70000 bytes), not enumerated. Disk faults: torn writes, disk full part-way through a write, one stored character flipped between dump and load (enumerated over positions). Object histories on fetched/API-built transactions (edits, in-place list edits, read-only uses, late witnesses). Open known findings: legacy transactions without inputs (format ambiguity).",
    "technique": "deterministic simulation of client/explorer/disk with response and disk fault injection; ground-truth oracle from the stub's chain database",
}

CLAIMED["C13"] = {
    "category": "exploration",
    "text": "Two-round MuSig among 2-5 simulated participants and an aggregator, each building its own MuSigTapScript from the keys in its own arrival order, nonces from a seeded or boundary-valued RNG behind buidl.taproot.randbelow, 1-2 sessions on the same objects (plain and taproot-tweaked), with duplicate / dropped / bit-flipped / stale partial signatures, nonces corrupted towards a subset and participant crash-restart between rounds: all parties agree on the aggregate key (U1), a returned signature verifies under an independent BIP340 verifier (U2), get_signature returns exactly when one consistent partial signature per participant arrived (U3), honest sessions succeed (U4); k-of-n trees: leaf count C(n,k), each k-subset owns exactly one leaf and a spend of it by that subset verifies in the library and under a reference script-path check (U5).",
    "design_ref": "DESIGN.md 5.5, 6 (C13)",
    "note": "Trusted: ref/secp.py, ref/sighash.py. The aggregate key is the library's own definition (not compared with BIP327). One open known finding (nonce sums at the point at infinity). Sessions may be retries of the same message on the same objects (bounded liveness once faults stop); the dealer may produce further trees from one object before the first is used; an input may first be initialised for another subset's leaf; the coins' tree may be time-locked (script-number width boundaries; BIP65/BIP112 in the reference) and composite (everything_tree, musig_and_single_leaf_tree). pecc is slow (45 ms per scalar multiplication): ~20 k runs/hour.",
    "technique": "deterministic simulation of a multi-party signing protocol with message-fault injection and RNG seam; independent BIP340 verification",
}

CLAIMED["C10"] = {
    "category": "exploration",
    "text": "A signing ceremony of coordinator (creator/updater/combiner/finaliser/extractor) and n signers, all running the real PSBT code, over an explicit delivery schedule (star, chain, gossip) with duplicated, stale, lost and bit-flipped messages, cross-talk from another spend, crash-restart from the last stored serialisation, and Byzantine signers: every emitted message is a codec fixed point with a non-witness unsigned transaction (Q1, Q2); the combiner's bytes and the extracted transaction equal those of the canonical schedule for the same signer set (Q3, library against library); a transaction is extracted exactly when every input has the threshold of script-key signatures, and it is authorised per the reference (Q4); messages with a partial signature the reference finds invalid are rejected at load (Q5); different transactions do not combine (Q6); fault-free ceremonies complete (Q7). All signer subsets and arrival orders of a 2-of-3 are enumerated.",
    "design_ref": "DESIGN.md 5.4, 6 (C10)",
    "note": "Trusted: ref/psbtmap.py, ref/stdverify.py, ref/secp.py, ref/sighash.py, ref/wallet.py. Byte-equality with the canonical schedule is demanded only when no corrupted message was accepted. Third-party creator/finaliser shapes (both UTXO records, previous transaction only, no empty final-scriptSig record), account paths of depth 0..4, parsing with and without a network argument, re-tagged and UTXO-stripped signatures, in-place finalisation and operand reuse are part of the workload, as is an updater whose key lookup comes from the library's BIP44 helper (single-key wallets spending received and change coins through the HD signer). Not simulated: PSBTs of several wallets in one transaction, testnet keys. pecc is slow: ~6-10 k runs/hour; quorums up to 3 (thorough: 4), 1-3 inputs.",
    "technique": "deterministic simulation of a multi-party PSBT workflow with message-fault injection and crash-restart; confluence against a canonical schedule plus reference verification",
}
CLAIMED["C11"] = {
    "category": "exploration",
    "text": "An honest signer reviews (describe_basic_multisig) every PSBT it receives from a coordinator whose message is honest, tampered in flight with one entry of the property's catalogue, or hit by random byte corruption, before signing: the summary's fee and totals equal the stub's ground truth and are conserved (R1); every output labelled change commits, in the received unsigned transaction, to the wallet's m-of-n script made of exactly one derived key per cosigner (R2); honest PSBTs are summarised (R3). The catalogue is enumerated against P2SH and P2WSH wallets in the quick tier.",
    "design_ref": "DESIGN.md 5.4, 6 (C11)",
    "note": "Weakest fit for this technique: a per-message check in a two-party setting, no ordering dimension. Trusted: ref/wallet.py, ref/psbtmap.py. One open known finding (witness-UTXO amounts of pure p2wsh inputs are not verifiable from the PSBT; not raised when the signer first updates from its own records). Quorums up to 15-of-15 in the enumerated families. The catalogue includes look-alike templates and legacy inputs carrying both UTXO records with a script that is not the coin's. p2sh-p2wsh is not supported by the summary and not exercised.",
    "technique": "deterministic simulation of a coordinator-signer exchange with Byzantine-coordinator tampering and byte corruption in flight; ground-truth oracle from an independent wallet model",
}

PENDING = {}


def cmd(pid, tier):
    # quick: a few minutes; thorough: submission of new runs stops after 40 minutes (wall_cap), running batches and minimisation finish after it
    return f"timeout {3000 if tier == 'quick' else 5400} /venv/bin/python /verif/check.py {pid} --tier {tier}"


def main():
    props = [json.loads(l) for l in open(os.path.join(VERIF, "properties.jsonl"))]
    checks = []
    na = []
    for p in props:
        pid = p["id"]
        if pid in CLAIMED:
            c = CLAIMED[pid]
            checks.append(
                {
                    "property_id": pid,
                    "quick_cmd": cmd(pid, "quick"),
                    "thorough_cmd": cmd(pid, "thorough"),
                    "evidence_file": f"/verif/evidence/{pid}.json",
                    "replay_cmd_template": "/venv/bin/python /verif/check.py --replay {path}",
                    "engine": "dst",
                    "level_claimed": {"category": c["category"], "text": c["text"], "design_ref": c["design_ref"]},
                    "level_note": c["note"],
                    "technique": c["technique"],
                }
            )
        elif pid in NA_PURE:
            na.append({"property_id": pid, "reason": "not a simulation target: " + NA_PURE[pid]})
        else:
            na.append({"property_id": pid, "reason": PENDING.get(pid, "simulation target per DESIGN.md section 2, but its world is not built yet in this commit; not claimed until the check exists")})
    m = {
        "version": 1,
        "setup_cmd": "/venv/bin/python /verif/check.py --selftest refs",
        "hooks": {
            "guard": "BUIDL_VERIF",
            "enable": "no source hooks: every seam is a module-level name of buidl (buidl.network.socket/time/sleep/randint, buidl.tx.urlopen/open, buidl.shamir.randbits, buidl.taproot.randbelow) replaced from outside by the simulator for the duration of a run; BUIDL_VERIF is reserved and unused",
            "baseline_off_cmd": "cd /repo && /venv/bin/python -m pytest -ra -q -p no:cacheprovider --timeout=900 --continue-on-collection-errors",
            "source_commits": [],
            "add_only": True,
        },
        "engines": [
            {
                "name": "dst",
                "path": "/verif/check.py",
                "serves_properties": sorted(CLAIMED),
                "kind_free_text": "deterministic simulation with fault injection: seeded plan generation, deterministic plan interpreter over in-process worlds (sim/, worlds/), independent reference models (ref/), ddmin minimiser, replay files",
            }
        ],
        "checks": checks,
        "not_applicable": na,
        "notes": "See DESIGN.md. Exit codes: 0 held / 1 VIOLATION with replay / 2 harness error. known_findings.json lists open and fixed findings. Fix commits in /repo start with 'fix:'.",
    }
    with open(os.path.join(VERIF, "MANIFEST.json"), "w") as f:
        json.dump(m, f, indent=1)
        f.write("\n")


if __name__ == "__main__":
    main()
