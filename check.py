#!/venv/bin/python
"""Entry point of every check.

  check.py <ID> [--tier quick|thorough]      run the check for one property
  check.py --replay FILE                      re-execute a replay file (exit 1 if it reproduces)
  check.py --selftest determinism|refs [...]  machinery self-tests

Honours VERIF_SEED, VERIF_TIER, VERIF_BUDGET_S, VERIF_WORKERS, VERIF_RUNS.
"""
import argparse
import os
import sys

VERIF = os.path.dirname(os.path.abspath(__file__))

if os.environ.get("PYTHONHASHSEED") != "0" and not os.environ.get("VERIF_KEEP_HASHSEED"):
    # set/dict-of-bytes iteration order inside the library must not vary between runs
    env = dict(os.environ)
    env["PYTHONHASHSEED"] = "0"
    os.execve(sys.executable, [sys.executable] + sys.argv, env)

sys.path.insert(0, VERIF)
# import buidl from /repo's current working tree, whatever is installed
REPO = os.environ.get("VERIF_REPO", "/repo")
sys.path.insert(0, REPO)


def main():
    ap = argparse.ArgumentParser()
    ap.add_argument("prop", nargs="?")
    ap.add_argument("--tier", default=os.environ.get("VERIF_TIER", "quick"), choices=["quick", "thorough"])
    ap.add_argument("--replay")
    ap.add_argument("--selftest")
    ap.add_argument("--seeds", type=int, default=200)
    args = ap.parse_args()

    import buidl

    if not os.path.abspath(buidl.__file__).startswith(os.path.abspath(REPO) + os.sep):
        print(f"HARNESS-ERROR buidl imported from {buidl.__file__}, expected {REPO}")
        return 2

    from sim import runner

    if args.replay:
        return runner.replay_file(args.replay)
    if args.selftest:
        from sim import selftest

        return selftest.main(args.selftest, args.prop, args.seeds)
    if not args.prop:
        ap.error("property id required")
    seed = int(os.environ.get("VERIF_SEED", "0"))
    code, _ = runner.run_check(args.prop, args.tier, seed)
    return code


if __name__ == "__main__":
    try:
        rc = main()
    except SystemExit:
        raise
    except BaseException:
        import traceback

        traceback.print_exc()
        print("HARNESS-ERROR uncaught exception in check.py")
        rc = 2
    sys.stdout.flush()
    sys.exit(rc)
