"""W-MUSIG: two-round MuSig among n simulated parties and k-of-n taproot trees (C13).

Real code: MuSigTapScript (key aggregation, generate_nonces, nonce_sums, compute_coefficient/k/r, sign, get_signature),
TapRootMultiSig (musig_tree, multi_leaf_tree, single_leaf), TapBranch/TapLeaf.control_block, Tx.sig_hash,
Tx.initialize/finalize_p2tr_multisig, Tx.get_sig_taproot, Tx.verify_input, pecc point arithmetic and Schnorr.
Stub: the transport between parties, the RNG behind buidl.taproot.randbelow.
"""
from io import BytesIO
from itertools import combinations
from math import comb

import buidl.taproot as bt
from buidl.ecc import N, PrivateKey, S256Point
from buidl.script import Script, ScriptPubKey
from buidl.taproot import MultiSigTapScript, MuSigTapScript, TapLeaf, TapRootMultiSig
from buidl.tx import Tx, TxIn, TxOut
from buidl.timelock import Locktime, Sequence
from buidl.witness import Witness

from ref import secp, sighash as rs, txmodel as tm
from sim.core import SimDeadlock, plan_rng

WORLD = "musig"
TIME_UNIT = "logical time: delivered protocol messages (keys, nonces, partial signatures)"
ALLOW_EMPTY_STEPS = True

COMPONENTS = {
    "real": ["buidl.taproot.MuSigTapScript (aggregation, nonces, coefficient, partial signing, get_signature)", "buidl.taproot.TapRootMultiSig tree generators (several trees from one object), TapBranch/TapLeaf/ControlBlock",
             "buidl.tx.Tx.sig_hash / get_sig_taproot / initialize+finalize_p2tr_multisig / verify_input", "buidl.pecc point arithmetic, Schnorr sign/verify"],
    "stub": ["transport between participants and aggregator (order, duplication, loss, corruption, staleness)", "RNG behind buidl.taproot.randbelow", "participant crash/restart (volatile nonce secrets)"],
}
LEVEL = {"C13": "exploration"}
RULE = {
    "C13": "plans drawn from Chooser(VERIF_SEED/musig/C13/index): (a) sessions - 2-5 participants from a pool of keys of both parities, each learning the keys and nonces in its own order, 1-2 signing sessions on "
    "the same participant objects (plain and taproot-tweaked), nonces from a seeded or boundary-valued RNG, with faults: duplicate / dropped / bit-flipped / stale partial signatures, nonces corrupted towards a subset, "
    "participant crash between rounds with a fresh nonce reaching all or only some; (b) trees - (k, n) with 1<=k<=n<=5, a live k-subset, MuSig and tapscript-multisig leaves, a spend of the subset's leaf. "
    "Non-trivial = a signature aggregation or a leaf spend was attempted; distinct = distinct event-log digest.",
}
ASSUMPTIONS = {
    "C13": ["ref/secp.py BIP340 verification and ref/sighash.py BIP341/342 digest are correct (self-tested on published vectors)",
            "an inconsistent multiset of partial signatures summing to a valid signature by coincidence (probability ~2^-256) is treated as impossible",
            "the aggregate key is the library's own definition (sorted x-only keys, second coefficient 1); only order-independence and BIP340 validity are checked, not equality with BIP327"],
}
TIERS = {
    "C13": {
        "quick": {"runs": 420, "chunk": 4, "per_run_timeout": 600, "wall_cap": 400, "minimise_budget": 300},
        "thorough": {"runs": 9000, "chunk": 6, "per_run_timeout": 900, "wall_cap": 2400, "minimise_budget": 600},
    }
}

POOL = 10
SECRETS = [int.from_bytes(tm.sha256(b"verif-musig-%d" % i), "big") % (secp.N - 1) + 1 for i in range(POOL)]
_PRIV = {}
_TR = [None]


def fail(oracle, detail, msg):
    _TR[0].fail("C13", oracle, detail, msg)


def nontrivial(res):
    p = res["probes"]
    return p.get("aggregations", 0) > 0 or p.get("leaf_spends", 0) > 0


def priv(i):
    if i not in _PRIV:
        _PRIV[i] = PrivateKey(SECRETS[i])
    return _PRIV[i]


class NonceRng:
    def __init__(self, spec):
        self.mode = spec.get("mode", "seeded")
        self.r = plan_rng(spec.get("seed", 0), "nonce")
        self.calls = 0

    def __call__(self, n):
        """randbelow(n): any value in [0, n) is legal; the property speaks of nonces in [1, n-1]"""
        self.calls += 1
        if self.mode == "one":
            return 1
        if self.mode == "max":
            return n - 1
        if self.mode == "small":
            return 1 + self.r.randrange(0, 4)
        if self.mode == "mixed":
            return self.r.choice([1, 2, n - 1, n - 2, 1 + self.r.randrange(n - 1)])
        return 1 + self.r.randrange(n - 1)


def flip(b, bit):
    bb = bytearray(b)
    bb[(bit // 8) % len(bb)] ^= 1 << (bit % 8)
    return bytes(bb)


class Party:
    def __init__(self, idx, key):
        self.idx = idx
        self.key = key
        self.priv = priv(key)
        self.musig = None
        self.nonce_secrets = None
        self.nonce_points = None
        self.view = {}  # sender -> (sec1, sec2) latest received
        self.order = []  # arrival order of senders


def run_sessions(plan, tr):
    n = plan["n"]
    keys = plan["keys"][:n]
    parties = [Party(i, k) for i, k in enumerate(keys)]
    points = [p.priv.point for p in parties]
    rng = NonceRng(plan.get("nonce", {}))
    bt.randbelow = rng
    if rng.mode != "seeded":
        tr.fault("rng_" + rng.mode)

    def build_objects():
        for p in parties:
            order = plan_rng(plan["order_seed"], f"keys{p.idx}").sample(range(n), n)
            p.musig = MuSigTapScript([points[j] for j in order])
            tr.ev(f"party{p.idx}", "keys", "".join(map(str, order)))
        # U1: agreement on the aggregate key, whatever order the keys were learnt in
        tr.oracle("U1")
        secs = {p.musig.point.sec() for p in parties}
        if len(secs) != 1:
            fail("U1", "aggregate_key_depends_on_order", f"participants computed {len(secs)} different aggregate keys from the same {n} keys listed in different orders")
        xs = sorted(secp.xonly(secp.mul(SECRETS[k])) for k in keys)
        if parties[0].musig.commands[-2:] != [parties[0].musig.point.xonly(), 0xAC]:
            fail("U1", "leaf_script_template", "MuSig leaf script is not <aggregate x-only key> OP_CHECKSIG")
        tr.probe("agg_parity_" + str(parties[0].musig.point.parity))

    build_objects()
    prev_psigs = {}
    results = []
    for si, sess in enumerate(plan["sessions"]):
        if si > 0 and not plan.get("reuse_objects", True):
            build_objects()
        if si > 0:
            tr.fault("second_session_same_objects" if plan.get("reuse_objects", True) else "second_session_fresh_objects")
            if sess.get("retry"):
                tr.fault("retry_same_message_after_" + ("failure" if results and results[-1] != "returned" else "success"))
        msg = bytes.fromhex(sess["msg"])
        merkle = bytes.fromhex(sess.get("merkle", ""))
        faults = sess.get("faults", [])
        agg = sess.get("agg", 0) % n
        # ---- round 1: nonces
        for p in parties:
            p.nonce_secrets, p.nonce_points = p.musig.generate_nonces()
            p.view = {}
            p.order = []
        current = {p.idx: (p.nonce_points[0].sec(), p.nonce_points[1].sec()) for p in parties}
        consistent = True
        aborted = set()
        deliveries = []
        for p in parties:
            for q in parties:
                deliveries.append((p.idx, q.idx, current[p.idx]))
        plan_rng(sess.get("order_seed", 0), "nonce-deliver").shuffle(deliveries)
        for f in faults:
            if f["f"] == "corrupt_nonce":
                src = f["i"] % n
                to = [t % n for t in f["to"]] or [(src + 1) % n]
                tr.fault("corrupt_nonce")
                deliveries = [(s, d, (flip(pair[0], f.get("bit", 9)), pair[1]) if (s == src and d in to and d != src) else pair) for (s, d, pair) in deliveries]
                if any(d != src for d in to):
                    consistent = False
        for s, d, pair in deliveries:
            parties[d].view[s] = pair
            if s not in parties[d].order:
                parties[d].order.append(s)
            tr.ev("net", "nonce", f"{s}>{d}")
        for f in faults:
            if f["f"] == "crash":
                i = f["i"] % n
                p = parties[i]
                tr.fault("crash_restart")
                # volatile nonce secrets are lost; after restart the participant draws a fresh nonce and re-broadcasts
                p.nonce_secrets, p.nonce_points = p.musig.generate_nonces()
                new = (p.nonce_points[0].sec(), p.nonce_points[1].sec())
                to = set(range(n)) if f.get("to") == "all" else {t % n for t in f.get("to", [])} | {i}
                for d in sorted(to):
                    parties[d].view[i] = new
                    tr.ev("net", "nonce-again", f"{i}>{d}")
                if to != set(range(n)):
                    consistent = False
                    tr.probe("restart_nonce_partial_delivery")
                else:
                    tr.probe("restart_nonce_full_delivery")
        # consistency is judged on the views themselves: every participant holds, for every sender, the nonce points that
        # sender currently has the secrets for (a re-drawn nonce that happens to equal the old one changes nothing)
        truth = {p.idx: (p.nonce_points[0].sec(), p.nonce_points[1].sec()) for p in parties}

        def same_points(view):
            # compare the points the participant will actually compute with (a flipped bit in the SEC prefix byte can still decode
            # to the same point in this library), not the bytes
            for s_, pair in truth.items():
                if s_ not in view:
                    return False
                for a_, b_ in zip(view[s_], pair):
                    if a_ == b_:
                        continue
                    try:
                        pa, pb = S256Point.parse(a_), S256Point.parse(b_)
                    except Exception:
                        return False
                    if pa != pb:
                        return False
            return True

        consistent = all(same_points(p.view) for p in parties)
        # ---- round 2: partial signatures
        psigs = {}
        r_of = {}
        lifted_wrong = False
        if any(f["f"] == "r_xonly" for f in faults):
            tr.fault("r_xonly")
        for p in parties:
            try:
                pairs = [(S256Point.parse(p.view[s][0]), S256Point.parse(p.view[s][1])) for s in p.order]
            except SimDeadlock:
                raise
            except Exception as e:
                aborted.add(p.idx)
                tr.ev(f"party{p.idx}", "abort", type(e).__name__)
                tr.probe("party_aborted_on_bad_nonce")
                continue
            # legal but degenerate nonce sets: a nonce sum at the point at infinity (reference arithmetic on the received points)
            inf = False
            for col in (0, 1):
                acc = None
                for s_ in p.order:
                    acc = secp.add(acc, secp.parse_sec(p.view[s_][col]))
                if acc is None:
                    inf = True
            if inf:
                tr.probe("nonce_sum_at_infinity")
                fail("U4", "nonce_sum_at_infinity", f"nonce pairs in [1, n-1] whose sum is the point at infinity: participant {p.idx} cannot compute R (no fallback as in BIP327)")
                return {"mode": "session", "n": n, "degenerate": "nonce sum at infinity"}
            try:
                sums = p.musig.nonce_sums(pairs)
                r = p.musig.compute_r(sums, msg)
                if any(f["f"] == "r_xonly" for f in faults):
                    # the aggregate nonce reaches the co-signers as a 32-byte x-only value (another coordinator's wire format) and is
                    # lifted back to a point: when the real R has odd y every co-signer signs for the wrong point
                    r_real = r
                    r = S256Point.parse_xonly(r.xonly())
                    if r != r_real:
                        lifted_wrong = True
                        tr.probe("r_lifted_to_other_parity")
                k = p.musig.compute_k(p.nonce_secrets, sums, msg)
                s_i = p.musig.sign(p.priv, k, r, msg, merkle)
            except SimDeadlock:
                raise
            except Exception as e:
                if consistent and not aborted:
                    fail("U4", "honest_participant_raised", f"participant {p.idx} raised {type(e).__name__}: {e} while computing its partial signature over a consistent nonce set")
                aborted.add(p.idx)
                continue
            psigs[p.idx] = s_i
            r_of[p.idx] = r
            ext = p.musig.point.tweaked_key(merkle) if merkle else p.musig.point.even_point()
            tr.probe(f"branch_rpar{int(r.parity == ext.parity)}_kpar{int(p.musig.point.parity == p.priv.point.parity)}")
            tr.ev(f"party{p.idx}", "psig")
        if agg in aborted:
            tr.ev("agg", "aborted")
            results.append("agg-aborted")
            continue
        arrivals = [(i, psigs[i].to_bytes(32, "big")) for i in sorted(psigs)]
        plan_rng(sess.get("order_seed", 0), "psig-deliver").shuffle(arrivals)
        exact = (len(psigs) == n)
        for f in faults:
            k = f["f"]
            if k == "drop_psig" and arrivals:
                j = f["i"] % len(arrivals)
                arrivals.pop(j)
                exact = False
                tr.fault("drop_psig")
            elif k == "dup_psig" and arrivals:
                j = f["i"] % len(arrivals)
                arrivals.insert((j + 1 + f.get("gap", 0)) % (len(arrivals) + 1), arrivals[j])
                exact = False
                tr.fault("dup_psig")
            elif k == "corrupt_psig" and arrivals:
                j = f["i"] % len(arrivals)
                arrivals[j] = (arrivals[j][0], flip(arrivals[j][1], f.get("bit", 0)))
                exact = False
                tr.fault("corrupt_psig")
            elif k == "stale_psig" and arrivals and prev_psigs:
                j = f["i"] % len(arrivals)
                who = arrivals[j][0]
                if who in prev_psigs:
                    arrivals[j] = (who, prev_psigs[who])
                    exact = False
                    tr.fault("stale_psig")
            elif k == "add_zero_psig":
                # an extra partial signature of value 0 changes nothing in the sum: still 'one per participant' semantically
                arrivals.append((-1, (0).to_bytes(32, "big")))
                tr.fault("add_zero_psig")
        # 'exactly one consistent partial signature per participant' is judged on the multiset that actually arrived
        genuine = sorted(psigs[i].to_bytes(32, "big") for i in psigs)
        exact = len(psigs) == n and sorted(b for _, b in arrivals if int.from_bytes(b, "big") != 0 or b in genuine) == genuine
        s_sum = 0
        for who, b in arrivals:
            s_sum += int.from_bytes(b, "big")
            tr.ev("net", "psig", f"{who}>agg")
        A = parties[agg]
        expect = consistent and exact and not aborted and not lifted_wrong
        tr.probe("aggregations")
        tr.probe("expect_" + str(expect))
        try:
            sig = A.musig.get_signature(s_sum, r_of[agg], msg, merkle)
            out = "returned"
        except SimDeadlock:
            raise
        except Exception as e:
            sig = None
            out = "raised:" + type(e).__name__
        tr.ev("agg", "get_signature", f"{out}|expect={expect}|tweaked={bool(merkle)}")
        tr.state("agg", n, bool(merkle), expect, out.split(":")[0], tuple(sorted(f["f"] for f in faults)), si)
        results.append(out)
        if sig is not None:
            # U2: independent BIP340 verification
            tr.oracle("U2")
            raw = sig.serialize()
            aggx = secp.xonly(secp.lift_x(int.from_bytes(A.musig.point.xonly(), "big")))
            if merkle:
                q = secp.taproot_tweak_pubkey(aggx, merkle)
                pk = secp.xonly(q)
            else:
                pk = aggx
            if not secp.schnorr_verify(pk, msg, raw):
                fail("U2", "aggregate_not_bip340_valid", f"get_signature returned 64 bytes that do not verify under the reference BIP340 verifier for the {'tweaked' if merkle else 'plain'} aggregate key")
            tr.oracle("U3")
            if not expect:
                fail("U3", "inconsistent_session_accepted", f"get_signature returned a signature although the partial signatures were not exactly one consistent partial signature per participant (faults: {[f['f'] for f in faults]})")
        else:
            tr.oracle("U3")
            if expect:
                fail("U4", "honest_session_failed" + ("_tweaked" if merkle else "_plain") + (f"_session{si+1}" if si else ""), f"all {n} participants signed over the same nonces, every partial signature arrived exactly once, yet get_signature raised ({out}); "
                     f"aggregate parity {A.musig.point.parity}, merkle root {'present' if merkle else 'absent'}, session {si+1}")
        prev_psigs = {i: psigs[i].to_bytes(32, "big") for i in psigs}
    return {"mode": "session", "n": n, "keys": keys, "sessions": [{"tweaked": bool(s.get("merkle")), "faults": [f["f"] for f in s.get("faults", [])]} for s in plan["sessions"]], "results": results}


# ------------------------------------------------------------------------------------------------ trees


def ref_timelock_prefix(script):
    """(value, opcode, rest of script) when the script starts with <number> OP_CLTV/OP_CSV OP_DROP, else None; value None = not a minimal script number"""
    if not script:
        return None
    b0 = script[0]
    if 0x51 <= b0 <= 0x60:
        val, p = b0 - 0x50, 1
    elif 1 <= b0 <= 5 and len(script) >= 1 + b0:
        data = script[1 : 1 + b0]
        p = 1 + b0
        mag = int.from_bytes(data[:-1] + bytes([data[-1] & 0x7F]), "little")
        val = -mag if data[-1] & 0x80 else mag
        if (data[-1] & 0x7F) == 0 and (len(data) == 1 or not data[-2] & 0x80):
            val = None  # non-minimal (includes negative zero)
        elif len(data) == 1 and 1 <= data[0] <= 16:
            val = None  # must have been OP_1..OP_16
    else:
        return None
    if len(script) < p + 2 or script[p] not in (0xB1, 0xB2) or script[p + 1] != 0x75:
        return None
    return val, script[p], script[p + 2 :]


def ref_check_script_path(tx_model, spent, witness, label, expect_lock=None):
    """Reference validation of a taproot script-path spend of a MuSig leaf (<x> CHECKSIG) or a k-of-n CHECKSIGADD leaf."""
    script = witness[-2]
    cb = witness[-1]
    if len(cb) < 33 or (len(cb) - 33) % 32:
        return False, "control block length"
    lv = cb[0] & 0xFE
    par = cb[0] & 1
    internal = cb[1:33]
    h = rs.tapleaf_hash(script, lv)
    leaf_hash = h
    for j in range((len(cb) - 33) // 32):
        h = rs.tapbranch_hash(h, cb[33 + 32 * j : 65 + 32 * j])
    q = secp.taproot_tweak_pubkey(internal, h)
    if q is None or secp.xonly(q) != spent[0][1][2:] or (q[1] & 1) != par:
        return False, "control block does not commit to the output key"
    stack = witness[:-2]
    # optional timelock prefix: <n> OP_CHECKLOCKTIMEVERIFY|OP_CHECKSEQUENCEVERIFY OP_DROP (BIP65 / BIP112 against the spending transaction)
    pre = ref_timelock_prefix(script)
    if pre is not None:
        val, op, script = pre
        if val is None:
            return False, "timelock operand is not a minimally encoded number"
        if val < 0:
            return False, "negative timelock operand"
        if expect_lock is not None and (op, val) != expect_lock:
            return False, f"timelock operand {val} (opcode {op:#x}) is not the requested one {expect_lock}"
        seq = tx_model["ins"][0]["sequence"]
        if op == 0xB1:
            lt = tx_model["locktime"]
            if (val < 500000000) != (lt < 500000000) or val > lt or seq == 0xFFFFFFFF:
                return False, "BIP65 condition not met by the spending transaction"
        elif not val & (1 << 31):
            mask = 0x0040FFFF
            if tx_model["version"] < 2 or seq & (1 << 31) or (val & (1 << 22)) != (seq & (1 << 22)) or (val & mask) > (seq & mask):
                return False, "BIP112 condition not met by the spending transaction"
    elif expect_lock is not None:
        return False, "leaf script carries no timelock although one was requested"
    # parse the two templates
    if len(script) == 34 and script[0] == 32 and script[33] == 0xAC:
        if len(stack) != 1:
            return False, "stack size"
        sig = stack[0]
        ht = sig[64] if len(sig) == 65 else 0
        d = rs.bip341(tx_model, 0, spent, ht, leaf_hash=leaf_hash)
        return (d is not None and secp.schnorr_verify(script[1:33], d, sig[:64])), "signature"
    # <x1> CHECKSIG <x2> CHECKSIGADD ... <k> NUMEQUAL
    p = 0
    xs = []
    while p < len(script) and script[p] == 32:
        xs.append(script[p + 1 : p + 33])
        op = script[p + 33]
        if op not in (0xAC, 0xBA):
            return False, "template"
        p += 34
    if p + 2 != len(script) or script[p + 1] != 0x87:
        return False, "template tail"
    k = script[p] - 0x50
    if len(stack) != len(xs):
        return False, "stack size"
    count = 0
    for x, sig in zip(xs, reversed(stack)):
        if sig == b"":
            continue
        ht = sig[64] if len(sig) == 65 else 0
        d = rs.bip341(tx_model, 0, spent, ht, leaf_hash=leaf_hash)
        if d is None or not secp.schnorr_verify(x, d, sig[:64]):
            return False, "invalid non-empty signature"
        count += 1
    return count == k, "threshold"


def run_tree(plan, tr):
    n, k = plan["n"], plan["k"]
    keys = plan["keys"][:n]
    privs = [priv(x) for x in keys]
    points = [p.point for p in privs]
    bt.randbelow = NonceRng(plan.get("nonce", {}))
    trm = TapRootMultiSig(points, k) if n >= 2 else None
    if trm is None:
        return {"mode": "tree", "skipped": "n=1 has no MuSig internal key"}
    internal = trm.default_internal_pubkey
    subset = sorted(plan["subset"])[:k]
    sub_points = [points[i] for i in subset]
    kinds = []
    if k >= 2:
        kinds.append("musig")
    kinds.append("multisig")
    if plan.get("kind") in kinds:
        kinds = [plan["kind"]]
    out = {"mode": "tree", "n": n, "k": k, "subset": subset, "kinds": kinds, "results": []}
    # the tree the coins are sent to may be a time-locked recovery variant and/or one of the composite trees
    targs = plan.get("targs") or {}
    kw, expect_lock = {}, None
    if targs.get("sequence"):
        kw["sequence"] = Sequence.from_relative_blocks(targs["sequence"])
        expect_lock = (0xB2, targs["sequence"])
        tr.fault("timelocked_tree_sequence")
    elif targs.get("locktime"):
        kw["locktime"] = Locktime(targs["locktime"])
        expect_lock = (0xB1, targs["locktime"])
        tr.fault("timelocked_tree_locktime")
    fn = targs.get("fn")
    composite = fn in ("everything_tree", "musig_and_single_leaf_tree") and k >= 2  # the composite trees contain MuSig leaves: undefined for single keys
    for kind in kinds:
        if composite:
            # composite trees: the n-of-n single leaf coincides with the only multisig leaf when k = n, and musig_and_single has no
            # per-subset multisig leaves: ownership is asked for the MuSig leaves, and for multisig leaves of everything_tree when k < n
            if kind == "multisig" and (fn != "everything_tree" or k == n):
                continue
            tree = getattr(trm, fn)(**kw)
            tr.probe("composite_tree_" + fn)
        else:
            tree = trm.musig_tree(**kw) if kind == "musig" else trm.multi_leaf_tree(**kw)
        # the dealer goes on producing other trees from the SAME object (time-locked recovery variants, the other leaf kinds) before
        # anybody uses the first one: the first tree must stay the tree it was
        root0 = tree.hash()
        raws0 = [lf.tap_script.raw_serialize() for lf in tree.leaves()]
        for lt in plan.get("later", []):
            tr.fault("later_tree_" + lt["fn"])
            lkw = {}
            if lt.get("sequence"):
                lkw["sequence"] = Sequence.from_relative_blocks(lt["sequence"])
            elif lt.get("locktime"):
                lkw["locktime"] = Locktime(lt["locktime"])
            try:
                other = getattr(trm, lt["fn"])(**lkw)
                other.hash() if hasattr(other, "hash") else None
            except SimDeadlock:
                raise
            except Exception as e:
                tr.probe("later_tree_raised")
        if plan.get("later"):
            tr.oracle("U5_stable")
            if tree.hash() != root0 or [lf.tap_script.raw_serialize() for lf in tree.leaves()] != raws0:
                fail("U5", f"tree_changed_by_later_tree_{kind}", f"the {kind} tree for {k}-of-{n} (merkle root {root0.hex()[:16]}..) changed after the same TapRootMultiSig object produced {[l['fn'] for l in plan['later']]}")
        leaves = tree.leaves()
        tr.oracle("U5_count")
        tr.ev("dealer", "tree", f"{kind}|{k}of{n}|{len(leaves)}")
        if not composite and len(leaves) != comb(n, k):
            fail("U5", f"leaf_count_{kind}", f"{kind} tree for {k}-of-{n} has {len(leaves)} leaves, expected C({n},{k}) = {comb(n, k)}")
        raws = [lf.tap_script.raw_serialize() for lf in leaves]
        if not composite and len(set(raws)) != len(raws):
            fail("U5", f"duplicate_leaves_{kind}", f"{kind} tree for {k}-of-{n} contains duplicate leaf scripts")
        # the live subset builds its own script, listing its keys in its own order
        order = plan_rng(plan.get("order_seed", 0), "sub").sample(range(k), k)
        mine_pts = [sub_points[j] for j in order]
        mine = MuSigTapScript(mine_pts, **kw) if kind == "musig" else MultiSigTapScript(mine_pts, k, **kw)
        hits = [lf for lf, raw in zip(leaves, raws) if raw == mine.raw_serialize()]
        tr.oracle("U5_owner")
        if len(hits) != 1:
            fail("U5", f"subset_owns_{len(hits)}_leaves_{kind}", f"the {k}-subset {subset} of {n} keys owns {len(hits)} leaves of the {kind} tree (expected exactly one)")
            continue
        if plan.get("all_subsets"):
            for comb_idx in combinations(range(n), k):
                s_pts = [points[i] for i in comb_idx]
                sc = (MuSigTapScript(s_pts, **kw) if kind == "musig" else MultiSigTapScript(s_pts, k, **kw)).raw_serialize()
                c = raws.count(sc)
                tr.oracle("U5_owner")
                if c != 1:
                    fail("U5", f"subset_owns_{c}_leaves_{kind}", f"the {k}-subset {list(comb_idx)} of {n} keys owns {c} leaves of the {kind} tree")
        leaf = hits[0]
        merkle_root = tree.hash()
        # the subset asks the tree for the control block of the leaf it re-derived from its own keys (an equal, not identical, object)
        cb = tree.control_block(internal, mine.tap_leaf())
        if cb is None:
            fail("U5", f"no_control_block_{kind}" + ("_single_leaf_tree" if len(leaves) == 1 else ""), f"the tree returns no control block for the leaf the {k}-subset {subset} re-derived from its keys ({len(leaves)} leaves in the tree)")
            continue
        cb2 = tree.control_block(internal, leaf)
        if cb2 is None or cb2.serialize() != cb.serialize():
            fail("U5", f"control_block_depends_on_leaf_object_{kind}", "control block for the tree's own leaf object differs from the one for an equal re-derived leaf")
            continue
        # ---- spend of that leaf
        spk = internal.p2tr_script(merkle_root)
        ti = TxIn(bytes.fromhex(plan["txid"]), plan["vout"])
        ti._value = plan["amount"]
        ti._script_pubkey = spk
        dest = Script.parse(BytesIO(tm.compact_size(22) + tm.spk_p2wpkh(bytes(20))))
        tx_locktime = plan.get("locktime", 0)
        if "sequence" in kw:
            # the coin has matured exactly: the input's relative lock is the leaf's
            ti.sequence = kw["sequence"]
        elif "locktime" in kw:
            ti.sequence = Sequence(0xFFFFFFFE)
            tx_locktime = targs["locktime"]
        tx = Tx(2, [ti], [TxOut(plan["amount"] - 500, ScriptPubKey.parse(BytesIO(tm.compact_size(22) + tm.spk_p2wpkh(bytes(20)))))], tx_locktime, network="signet", segwit=True)
        tr.probe("leaf_spends" + ("_timelocked" if kw else ""))
        if kind == "musig":
            ti.witness.items = [leaf.tap_script.raw_serialize(), cb.serialize()]
            sig_hash = tx.sig_hash(0, 0)
            nsec, npts = [], []
            for _ in mine_pts:
                a, b = mine.generate_nonces()
                nsec.append(a)
                npts.append(b)
            perm = plan_rng(plan.get("order_seed", 0), "np").sample(range(k), k)
            sums = mine.nonce_sums([npts[j] for j in perm])
            r = mine.compute_r(sums, sig_hash)
            s_sum = 0
            sub_privs = [privs[subset[j]] for j in order]
            for a, pv in zip(nsec, sub_privs):
                kk = mine.compute_k(a, sums, sig_hash)
                s_sum += mine.sign(pv, kk, r, sig_hash)
            try:
                schnorr = mine.get_signature(s_sum, r, sig_hash)
            except SimDeadlock:
                raise
            except Exception as e:
                fail("U5", "musig_leaf_signature_failed", f"honest MuSig of the {k}-subset for its leaf raised {type(e).__name__}: {e}")
                continue
            ti.witness.items.insert(0, schnorr.serialize())
            try:
                ok = tx.verify_input(0)
            except SimDeadlock:
                raise
            except Exception as e:
                ok = False
        else:
            if plan.get("other_first") and comb(n, k) > 1:
                # another k-subset started preparing this input for ITS leaf and gave up; the live subset takes the input over
                other_idx = next(c_ for c_ in combinations(range(n), k) if sorted(c_) != subset)
                other_script = MultiSigTapScript([points[i] for i in other_idx], k)
                other_cb = tree.control_block(internal, other_script.tap_leaf())
                if other_cb is not None:
                    tr.fault("input_first_initialised_for_another_subset")
                    tx.initialize_p2tr_multisig(0, other_cb, other_script)
            tx.initialize_p2tr_multisig(0, cb, mine)
            sigs = [tx.get_sig_taproot(0, privs[subset[j]], ext_flag=1) for j in order]
            try:
                ok = tx.finalize_p2tr_multisig(0, sigs)
            except SimDeadlock:
                raise
            except Exception as e:
                ok = False
        tr.oracle("U5_spend")
        tr.ev("subset", "spend", f"{kind}|{bool(ok)}")
        tr.state("tree", kind, n, k, bool(ok), fn, sorted(kw))
        out["results"].append((kind, bool(ok)))
        if not ok:
            fail("U5", f"leaf_spend_invalid_{kind}", f"a spend of the {kind} leaf owned by the {k}-subset {subset} of {n}, signed by that subset, does not verify")
            continue
        # reference agreement
        mtx, _ = tm.parse_tx(tx.serialize(), strict=False)
        spent = [(plan["amount"], spk.raw_serialize())]
        good, why = ref_check_script_path(mtx, spent, mtx["ins"][0]["witness"], kind, expect_lock)
        tr.oracle("U5_ref")
        if not good:
            fail("U5", f"leaf_spend_rejected_by_reference_{kind}", f"library accepts the {kind} leaf spend but the reference script-path check fails at: {why}")
    return out


def execute(plan, prop, trace):
    _TR[0] = trace
    saved = bt.randbelow
    try:
        if plan["mode"] == "session":
            return run_sessions(plan, trace)
        return run_tree(plan, trace)
    finally:
        bt.randbelow = saved


# ------------------------------------------------------------------------------------------------

LATER_FNS = ["musig_tree", "musig_tree", "multi_leaf_tree", "single_leaf", "musig_and_single_leaf_tree", "everything_tree"]
SESSION_FAULTS = ["drop_psig", "dup_psig", "corrupt_psig", "stale_psig", "corrupt_nonce", "crash", "add_zero_psig", "r_xonly"]


LOCK_SEQUENCES = [1, 15, 16, 17, 127, 128, 144, 255, 256, 4032, 32767, 32768, 52560, 65535]
LOCK_LOCKTIMES = [1, 16, 17, 127, 128, 255, 256, 32767, 32768, 65535, 65536, 500000, 0x7FFFFF, 0x800000, 0xFFFFFF, 0x1000000, 499999999, 500000000, 1700000000, 0x7FFFFFFF, 0x80000000, 0xFFFFFFFF]


def gen_targs(ch):
    """arguments of the tree the coins are sent to: plain (the usual case), time-locked, composite"""
    if ch.chance(0.5):
        return {}
    t = {}
    if ch.chance(0.4):
        t["fn"] = ch.choice(["everything_tree", "musig_and_single_leaf_tree"])
    r_ = ch.randrange(5)
    if r_ < 2:
        t["sequence"] = ch.choice(LOCK_SEQUENCES + [ch.randrange(1, 65536)])
    elif r_ < 4:
        t["locktime"] = ch.choice(LOCK_LOCKTIMES + [ch.randrange(1, 2**32)])
    return t


def generate(ch, tier, prop):
    if ch.chance(0.3):
        n = ch.choice([2, 2, 3, 3, 4, 5]) if tier == "thorough" else ch.choice([2, 2, 3, 3, 4])
        k = ch.randrange(1, n + 1)
        return {"mode": "tree", "n": n, "k": k, "keys": ch.sample(range(POOL), n), "subset": ch.sample(range(n), k), "order_seed": ch.randrange(1 << 30), "txid": ch.bytes(32).hex(), "vout": ch.randrange(4),
                "amount": ch.choice([1000, 100000, 10**8]), "nonce": {"mode": "seeded", "seed": ch.randrange(1 << 30)}, "all_subsets": tier == "thorough" and ch.chance(0.5), "steps": [], "other_first": ch.chance(0.3),
                "later": [] if ch.chance(0.5) else [dict({"fn": ch.choice(LATER_FNS)}, **ch.choice([{}, {"sequence": ch.choice([1, 144, 65535])}, {"locktime": ch.choice([1, 500000, 1700000000])}])) for _ in range(ch.randrange(1, 3))],
                "targs": gen_targs(ch)}
    n = ch.choice([2, 2, 2, 3, 3, 4]) if tier == "quick" else ch.choice([2, 2, 3, 3, 4, 5])
    fault_free = ch.chance(0.35)
    enabled = [] if fault_free else [f for f in SESSION_FAULTS if ch.chance(0.4)]
    sessions = []
    for si in range(ch.choice([1, 1, 1, 2, 2, 3])):
        faults = []
        if enabled and ch.chance(0.6):
            for _ in range(ch.choice([1, 1, 2])):
                f = {"f": ch.choice(enabled), "i": ch.randrange(8), "bit": ch.randrange(256), "gap": ch.randrange(3)}
                if f["f"] == "corrupt_nonce":
                    f["to"] = ch.sample(range(n), ch.randrange(1, n))
                if f["f"] == "crash":
                    f["to"] = "all" if ch.chance(0.4) else ch.sample(range(n), ch.randrange(0, n))
                faults.append(f)
        sess = {"msg": ch.bytes(32).hex(), "merkle": ch.bytes(32).hex() if ch.chance(0.5) else "", "faults": faults, "agg": ch.randrange(n), "order_seed": ch.randrange(1 << 30)}
        if si > 0 and ch.chance(0.6):
            # a retry of the previous session's message (same tweak) with fresh nonces, after whatever happened there
            sess["msg"], sess["merkle"], sess["retry"] = sessions[-1]["msg"], sessions[-1]["merkle"], True
            if ch.chance(0.6):
                sess["faults"] = []
        sessions.append(sess)
    return {"mode": "session", "n": n, "keys": ch.sample(range(POOL), n), "order_seed": ch.randrange(1 << 30), "nonce": {"mode": ch.weighted([("seeded", 6), ("mixed", 2), ("one", 1), ("max", 1), ("small", 1)]), "seed": ch.randrange(1 << 30)},
            "reuse_objects": ch.chance(0.8), "sessions": sessions, "steps": []}


def enumerate_plans(tier, prop, seed):
    # every (k, n) with n <= 4 (quick: n <= 3 plus 2-of-4), one subset each, both leaf kinds
    pairs = [(k, n) for n in range(2, 6) for k in range(1, n + 1)]
    if tier == "quick":
        pairs = [(k, n) for (k, n) in pairs if n <= 3] + [(2, 4)]
    r = plan_rng(seed, "enum-tree")
    for (k, n) in pairs:
        yield {"mode": "tree", "n": n, "k": k, "keys": r.sample(range(POOL), n), "subset": r.sample(range(n), k), "order_seed": r.randrange(1 << 30), "txid": "11" * 32, "vout": 0, "amount": 100000,
               "nonce": {"mode": "seeded", "seed": r.randrange(1 << 30)}, "all_subsets": tier == "thorough" or n <= 3, "steps": [], "enum": "kn"}
    # key sets stratified over parities: every pair of pool keys (plain and tweaked, honest)
    pool_pairs = list(combinations(range(POOL), 2))
    if tier == "quick":
        pool_pairs = pool_pairs[seed % 3 :: 3]
    for a, b in pool_pairs:
        yield {"mode": "session", "n": 2, "keys": [a, b], "order_seed": seed, "nonce": {"mode": "seeded", "seed": a * 100 + b + seed}, "reuse_objects": True, "steps": [],
               "sessions": [{"msg": "%064x" % (a * 7 + b), "merkle": "", "faults": [], "agg": 0, "order_seed": 1}, {"msg": "%064x" % (a * 7 + b + 1), "merkle": "%064x" % (b + 5), "faults": [], "agg": 1, "order_seed": 2}], "enum": "pairs"}


    # a failed session followed by a fault-free retry of the same message on the same objects: every fault kind, plain and tweaked
    for fk in SESSION_FAULTS + ["none"]:
        for merkle in ("", "%064x" % 77):
            for n in (2, 3):
                f = [] if fk == "none" else [dict({"f": fk, "i": 1, "bit": 9, "gap": 0}, **({"to": [0]} if fk in ("corrupt_nonce", "crash") else {}))]
                yield {"mode": "session", "n": n, "keys": r.sample(range(POOL), n), "order_seed": r.randrange(1 << 30), "nonce": {"mode": "seeded", "seed": r.randrange(1 << 30)}, "reuse_objects": True, "steps": [],
                       "sessions": [{"msg": "%064x" % 5, "merkle": merkle, "faults": f, "agg": 0, "order_seed": 1}, {"msg": "%064x" % 5, "merkle": merkle, "faults": [], "agg": 0, "order_seed": 2, "retry": True},
                                    {"msg": "%064x" % 5, "merkle": merkle, "faults": [], "agg": 1, "order_seed": 3, "retry": True}], "enum": "retry"}
    # an input first initialised for another subset's leaf
    for (k_, n_) in ((1, 2), (2, 3), (2, 4), (3, 4)):
        yield {"mode": "tree", "n": n_, "k": k_, "keys": r.sample(range(POOL), n_), "subset": r.sample(range(n_), k_), "order_seed": r.randrange(1 << 30), "txid": "33" * 32, "vout": 0, "amount": 100000,
               "nonce": {"mode": "seeded", "seed": r.randrange(1 << 30)}, "all_subsets": False, "steps": [], "other_first": True, "kind": "multisig", "enum": "other-first"}
    # the coins' tree is a time-locked and/or composite variant: every tree function x (no lock, every width boundary of the script number)
    fns = [None, "everything_tree", "musig_and_single_leaf_tree"]
    locks = [{}] + [{"sequence": v} for v in LOCK_SEQUENCES] + [{"locktime": v} for v in LOCK_LOCKTIMES]
    for li, lock in enumerate(locks):
        for fi, fn in enumerate(fns):
            if tier == "quick" and lock and (li + fi) % 3:
                continue
            if fn is None and not lock:
                continue
            yield {"mode": "tree", "n": 3, "k": 2, "keys": r.sample(range(POOL), 3), "subset": r.sample(range(3), 2), "order_seed": r.randrange(1 << 30), "txid": "44" * 32, "vout": 0, "amount": 100000,
                   "nonce": {"mode": "seeded", "seed": r.randrange(1 << 30)}, "all_subsets": not lock, "steps": [], "targs": dict(lock, **({"fn": fn} if fn else {})), "enum": "timelocked-and-composite-trees"}
    # later trees from the same dealer object: every function x timelock argument, both leaf kinds
    for fn in sorted(set(LATER_FNS)):
        for arg in ({}, {"sequence": 144}, {"locktime": 500000}):
            yield {"mode": "tree", "n": 3, "k": 2, "keys": r.sample(range(POOL), 3), "subset": r.sample(range(3), 2), "order_seed": r.randrange(1 << 30), "txid": "22" * 32, "vout": 1, "amount": 100000,
                   "nonce": {"mode": "seeded", "seed": r.randrange(1 << 30)}, "all_subsets": True, "steps": [], "later": [dict({"fn": fn}, **arg)], "enum": "later"}


def shrink(plan):
    if plan["mode"] != "session":
        if plan.get("later"):
            for j in range(len(plan["later"])):
                yield dict(plan, later=plan["later"][:j] + plan["later"][j + 1 :])
        if plan.get("all_subsets"):
            yield dict(plan, all_subsets=False)
        return
    if len(plan["sessions"]) > 1:
        yield dict(plan, sessions=plan["sessions"][:1])
        yield dict(plan, sessions=plan["sessions"][1:])
    for si, s in enumerate(plan["sessions"]):
        for fi in range(len(s.get("faults", []))):
            s2 = dict(s, faults=s["faults"][:fi] + s["faults"][fi + 1 :])
            yield dict(plan, sessions=plan["sessions"][:si] + [s2] + plan["sessions"][si + 1 :])
        if s.get("merkle"):
            s2 = dict(s, merkle="")
            yield dict(plan, sessions=plan["sessions"][:si] + [s2] + plan["sessions"][si + 1 :])
    if plan["n"] > 2:
        yield dict(plan, n=plan["n"] - 1)
    if plan.get("nonce", {}).get("mode") != "seeded":
        yield dict(plan, nonce=dict(plan["nonce"], mode="seeded"))
