"""W-AIRGAP: BCUR frames over a camera-like one-way channel (C20).

Real code: BCURMulti(text_b64).encode / BCURMulti.parse, BCURSingle.encode / parse, bcur_encode/decode,
bc32encode/bc32decode, cbor_encode/cbor_decode.
Stub: the channel (loss, duplication, rotation, reordering, corruption, cross-talk, relabelling) and the two
receiver behaviours (naive: frames in capture order; collecting: dedupe by x, sort, wait for y parts).
"""
import re
from binascii import a2b_base64, b2a_base64
from itertools import product

from buidl.bcur import BCURMulti, BCURSingle
from buidl.bech32 import bc32decode, bc32encode, cbor_decode, cbor_encode

from sim.core import Violation, plan_rng

WORLD = "airgap"
TIME_UNIT = "logical time: captured frames (the channel has no timers)"
ALLOW_EMPTY_STEPS = True

COMPONENTS = {
    "real": ["buidl.bcur.BCURMulti.encode/parse (also repeated encode() on one object)", "buidl.bcur.BCURSingle.encode/parse", "buidl.bcur.bcur_encode/bcur_decode",
             "buidl.bech32.bc32encode/bc32decode/cbor_encode/cbor_decode"],
    "stub": ["camera channel (frame loss/dup/rotation/reorder/corruption/cross-talk/relabel)", "naive and collecting receivers (harness-side frame bookkeeping)"],
}
LEVEL = {"C20": "exploration"}
RULE = {
    "C20": "plans drawn from Chooser(VERIF_SEED/airgap/C20/index): 1-2 senders with payload lengths concentrated at the CBOR class boundaries (23/24, 255/256, "
    "65535/65536) and at multiples of the chunk size, chunk sizes 1..2000, animate on/off, single/multi; a capture sequence with loss, duplication, rotation, "
    "reordering, per-frame corruption (bech32/non-bech32 substitution in payload, checksum or x-of-y header, case, whitespace, truncation), cross-talk and "
    "consistent relabelling; plus enumerated families (every sequence of parts for part counts <= 4, every position x replacement character of the parts of "
    "a sampled payload). Non-trivial = the receiver was handed at least one frame and at least one fault fired or the delivery was multi-part; distinct = "
    "distinct event-log digest."
}
ASSUMPTIONS = {
    "C20": [
        "payload comparison is on a2b_base64(result.text_b64) versus the sender's bytes",
        "the collecting receiver is harness code (dedupe by x within a (y, checksum) group, first capture wins, reset on failed parse)",
        "CBOR prefix choice is compared only for invertibility, not against RFC 8949 (the library uses 0x60 for 4-byte lengths)",
    ]
}
TIERS = {
    "C20": {
        "quick": {"runs": 12000, "chunk": 200, "per_run_timeout": 120, "wall_cap": 300},
        "thorough": {"runs": 300000, "chunk": 500, "per_run_timeout": 300, "wall_cap": 2400},
    }
}

BECH = "qpzry9x8gf2tvdw0s3jn54khce6mua7l"
NONBECH = "bio1!_ ABIO"

_TR = [None]


def fail(oracle, detail, msg):
    _TR[0].fail("C20", oracle, detail, msg)


def nontrivial(res):
    p = res["probes"]
    return p.get("frames_handed", 0) > 0 and (sum(res["faults"].values()) > 0 or p.get("multi_part", 0) > 0)


def payload_of(spec):
    n = spec["len"]
    if n == 0:
        return b""
    r = plan_rng(spec["pseed"], "payload")
    mode = spec.get("fill", "rand")
    if mode == "zero":
        return bytes(n)
    if mode == "ff":
        return b"\xff" * n
    return r.getrandbits(8 * n).to_bytes(n, "big")


def mutate(frame, mut):
    """Apply one corruption to a frame string."""
    k = mut["kind"]
    parts = frame.split("/")
    if k in ("sub_payload", "sub_nonbech", "swap2", "case_one"):
        body = parts[-1]
        if not body:
            return frame
        pos = mut["pos"] % len(body)
        if k == "sub_payload":
            cur = body[pos]
            alt = BECH[(BECH.index(cur) + 1 + mut["c"] % 31) % 32] if cur in BECH else BECH[mut["c"] % 32]
            body = body[:pos] + alt + body[pos + 1 :]
        elif k == "sub_nonbech":
            body = body[:pos] + NONBECH[mut["c"] % len(NONBECH)] + body[pos + 1 :]
        elif k == "swap2":
            if len(body) >= 2:
                pos = pos % (len(body) - 1)
                body = body[:pos] + body[pos + 1] + body[pos] + body[pos + 2 :]
        elif k == "case_one":
            body = body[:pos] + body[pos].upper() + body[pos + 1 :]
        return "/".join(parts[:-1] + [body])
    if k == "sub_checksum":
        if len(parts) < 3:
            return frame
        cs = parts[-2]
        if not cs:
            return frame
        pos = mut["pos"] % len(cs)
        cur = cs[pos]
        alt = BECH[(BECH.index(cur) + 1 + mut["c"] % 31) % 32] if cur in BECH else BECH[mut["c"] % 32]
        parts[-2] = cs[:pos] + alt + cs[pos + 1 :]
        return "/".join(parts)
    if k in ("header_x", "header_y", "header_text"):
        if len(parts) != 4:
            return frame
        m = re.match(r"^(\d+)of(\d+)$", parts[1])
        if not m:
            return frame
        x, y = int(m.group(1)), int(m.group(2))
        if k == "header_x":
            parts[1] = f"{mut['v']}of{y}"
        elif k == "header_y":
            parts[1] = f"{x}of{mut['v']}"
        else:
            parts[1] = [f"0{x}of{y}", f"{x}of0{y}", f"{x}OF{y}", f"{x}of{y}of{y}", f"{x}f{y}", f"-{x}of{y}", f"{x}.0of{y}", f" {x}of{y}"][mut["v"] % 8]
        return "/".join(parts)
    if k == "upper":
        return frame.upper()
    if k == "whitespace":
        return [" " + frame, frame + "\n", "\t" + frame + "  ", frame.replace("/", " /", 1)][mut["c"] % 4]
    if k == "truncate":
        return frame[: mut["pos"] % (len(frame) + 1)]
    if k == "prefix":
        return ["ur:byte/", "UR:BYTES/", "ur:bytes//", "ur:crypto-psbt/"][mut["c"] % 4] + frame[len("ur:bytes/") :]
    raise ValueError(k)


BENIGN = {"upper", "whitespace", "case_one"}  # may legitimately still decode (library lower()/strip()s)


class Collector:
    """Harness-side receiver: groups by (y, checksum), first capture of an x wins, parses when y parts are present."""

    def __init__(self):
        self.groups = {}
        self.result = None
        self.attempts = 0

    def feed(self, frame, tr):
        s = frame.lower().strip()
        m = re.match(r"^ur:bytes/(\d+)of(\d+)/([^/]*)/([^/]*)$", s)
        if not m:
            tr.probe("collector_unparsable")
            return None
        x, y, cs = int(m.group(1)), int(m.group(2)), m.group(3)
        if not (1 <= x <= y) or y > 100000:
            tr.probe("collector_bad_xy")
            return None
        g = self.groups.setdefault((y, cs), {})
        g.setdefault(x, frame)
        if len(g) == y:
            self.attempts += 1
            ordered = [g[i] for i in range(1, y + 1)]
            try:
                obj = BCURMulti.parse(ordered)
            except Exception as e:
                tr.probe("collector_parse_failed")
                tr.ev("receiver", "parse-raised", type(e).__name__)
                del self.groups[(y, cs)]
                return None
            return obj
        return None


def check_result(obj, payloads, where):
    tr = _TR[0]
    tr.oracle("A1")
    try:
        got = a2b_base64(obj.text_b64)
    except Exception as e:
        fail("A1", "undecodable_result", f"{where}: parse returned an object whose text_b64 does not decode: {e}")
        return None
    for i, p in enumerate(payloads):
        if got == p:
            return i
    fail("A1", "other_data_" + where, f"{where}: parse returned {len(got)} bytes that are no sender's payload (senders: {[len(p) for p in payloads]} bytes); head={got[:24].hex()}")
    return None


def execute(plan, prop, trace):
    _TR[0] = trace
    tr = trace
    senders = plan["senders"]
    payloads = [payload_of(s) for s in senders]
    frames = []
    mode = plan.get("mode", "multi")
    # ---- senders encode (real code) + A3 codec clauses
    for si, (s, p) in enumerate(zip(senders, payloads)):
        text = b2a_base64(p).strip().decode()
        tr.oracle("A3_codec")
        c = cbor_encode(p)
        if cbor_decode(c) != p:
            fail("A3", f"cbor_roundtrip_len_{len(p)}" if len(p) in (23, 24, 255, 256, 65535, 65536) else "cbor_roundtrip", f"cbor_decode(cbor_encode(x)) != x for len {len(p)}")
        e = bc32encode(c)
        if bc32decode(e) != c:
            fail("A3", "bc32_roundtrip", f"bc32decode(bc32encode(x)) != x for len {len(c)}")
        # the all-upper-case rendering of the same text (alphanumeric QR codes): whether a decoder tolerates it is not part of the
        # statement, but it must never decode to other data
        try:
            up = bc32decode(e.upper())
        except Exception:
            up = None
        tr.probe("bc32_upper_case_" + ("decoded" if up is not None else "refused"))
        if up is not None and up != c:
            fail("A3", "bc32_upper_case_other_data", f"bc32decode of the upper-case text of a {len(c)}-byte string returned other data")
        tr.probe("cbor_class_" + ("tiny" if len(p) <= 23 else "u8" if len(p) <= 255 else "u16" if len(p) <= 65535 else "u32"))
        if len(p) in (23, 24, 255, 256, 65535, 65536):
            tr.probe(f"cbor_boundary_{len(p)}")
        if mode == "single":
            fr = [BCURSingle(text).encode(use_checksum=s.get("use_checksum", True))]
        else:
            # the sender's display may redraw the animation (same or another chunk size) from the SAME object before the
            # frames that get captured are produced: every frame set it ever returned must stay intact and reassemble exactly
            bm = BCURMulti(text)
            earlier = []
            for rd in s.get("redraws", []):
                tr.fault("sender_redraw")
                live = bm.encode(max_size_per_chunk=rd["chunk"], animate=rd.get("animate", True))
                snap = list(live)
                if rd.get("consume"):
                    # the display code owns the list it was handed and uses it up (shows and drops frames, re-orders it, overwrites a
                    # slot): what it does to ITS list must not reach what a later encode() returns
                    tr.fault("returned_list_consumed_" + rd["consume"])
                    if rd["consume"] == "pop":
                        while live:
                            live.pop(0)
                    elif rd["consume"] == "reverse":
                        live.reverse()
                    else:
                        live[0] = "ur:bytes/overwritten"
                    live = None
                earlier.append((snap, live, rd))
            if s.get("fresh_obj"):
                # the captured animation comes from a new object made for the same payload
                bm = BCURMulti(text)
            fr = bm.encode(max_size_per_chunk=s["chunk"], animate=s.get("animate", True))
            for snap, live, rd in earlier:
                tr.oracle("A3_redraw")
                if live is not None and list(live) != snap:
                    fail("A3", "earlier_frames_changed", f"sender {si}: frames returned by encode(chunk={rd['chunk']}) changed after a later encode() on the same object")
                try:
                    o2 = BCURMulti.parse(list(snap))
                    if a2b_base64(o2.text_b64) != p:
                        fail("A3", "redraw_wrong_payload", f"sender {si}: frames of an earlier encode(chunk={rd['chunk']}) reassemble to another payload")
                except Exception as ex:
                    fail("A3", "redraw_rejected", f"sender {si}: frames of an earlier encode(chunk={rd['chunk']}) do not reassemble: {type(ex).__name__}: {ex}")
            # structure of the frame list (labels 1..n of n, no empty part, chunk size respected): the statement promises reassembly, not a
            # particular partition, so an unusual partition that still reassembles is counted (probe), not reported
            tr.oracle("A3_frames")
            n = len(fr)
            for k, f in enumerate(fr):
                parts = f.split("/")
                if len(parts) != 4 or parts[1] != f"{k+1}of{n}":
                    tr.probe("structure_frame_label_unexpected")
                elif parts[3] == "":
                    tr.probe("structure_empty_part")
                elif s.get("animate", True) and len(parts[3]) > s["chunk"]:
                    tr.probe("structure_chunk_too_long")
            if n > 1:
                tr.probe("multi_part")
            if len(e) % max(1, s["chunk"]) in (0, 1) and s.get("animate", True):
                tr.probe("chunk_boundary_len")
            tr.probe("parts_class_" + ("1" if n == 1 else "2" if n == 2 else "3-8" if n <= 8 else "9+"))
        frames.append(fr)
        tr.ev(f"sender{si}", "encode", f"{len(p)}|{len(fr)}")
        tr.state("enc", len(fr), min(len(p).bit_length(), 17))

    # ---- A3 completeness: a clean, complete, in-order delivery reassembles exactly
    for si, fr in enumerate(frames):
        tr.oracle("A3_clean")
        try:
            obj = BCURSingle.parse(fr[0]) if mode == "single" else BCURMulti.parse(list(fr))
        except Exception as e:
            fail("A3", "clean_delivery_rejected", f"clean in-order delivery of sender {si} ({len(payloads[si])} bytes, {len(fr)} parts, chunk {senders[si].get('chunk')}) raised {type(e).__name__}: {e}")
            continue
        who = check_result(obj, payloads, "clean")
        if who is not None and payloads[who] != payloads[si]:
            fail("A1", "clean_wrong_sender", "clean delivery returned another sender's payload")

    # ---- the channel: build the capture sequence from the plan's steps
    captured = []
    clean_of = []  # for each captured frame: (sender, index) if untouched else None
    for st in plan["steps"]:
        s, i = st["s"], st["i"]
        if s >= len(frames) or not frames[s]:
            continue
        f = frames[s][i % len(frames[s])]
        origin = (s, i % len(frames[s]))
        if st.get("fault") == "crosstalk":
            tr.fault("crosstalk")
        if st.get("fault") == "dup":
            tr.fault("dup")
        if st.get("fault") == "reorder":
            tr.fault("reorder")
        mut = st.get("mut")
        if mut:
            g = mutate(f, mut)
            if g != f:
                tr.fault("corrupt_" + mut["kind"])
                if mut["kind"] not in BENIGN:
                    origin = None
                f = g
        captured.append(f)
        clean_of.append(origin)
        tr.ev("channel", "capture", f"{s}|{i}|{(mut or {}).get('kind')}")
    for k in plan.get("lost", []):
        tr.fault("loss")
    if plan.get("rotation"):
        tr.fault("rotation")
    if plan.get("relabel"):
        # consistent renumbering of the header to hide missing parts: applied to every captured frame
        tr.fault("relabel")
        newy = plan["relabel"]
        out = []
        for k, f in enumerate(captured):
            parts = f.split("/")
            if len(parts) == 4:
                parts[1] = f"{k+1}of{newy if newy > 0 else len(captured)}"
            out.append("/".join(parts))
        captured = out
        clean_of = [None] * len(captured)

    # ---- receiver
    rec = plan.get("receiver", "naive")
    outcome = "none"
    if mode == "single":
        for f in captured[:1]:
            tr.probe("frames_handed")
            try:
                obj = BCURSingle.parse(f)
                outcome = "returned"
            except Exception as e:
                outcome = "raised:" + type(e).__name__
                tr.ev("receiver", "parse-raised", type(e).__name__)
                continue
            check_result(obj, payloads, "single")
    elif rec == "naive":
        if captured:
            tr.probe("frames_handed", len(captured))
            exact = None
            for si, fr in enumerate(frames):
                if [c.lower().strip() for c in captured] == [x.lower().strip() for x in fr]:
                    exact = si
            try:
                obj = BCURMulti.parse(list(captured))
                outcome = "returned"
            except Exception as e:
                outcome = "raised:" + type(e).__name__
                tr.ev("receiver", "parse-raised", type(e).__name__)
                obj = None
                if exact is not None:
                    fail("A3", "exact_delivery_rejected", f"captured list equals sender {exact}'s frame list (after lower/strip) but parse raised {type(e).__name__}: {e}")
            if obj is not None:
                who = check_result(obj, payloads, "naive")
                tr.oracle("A2")
                if exact is None:
                    tr.probe("returned_on_inexact_list")
                    # allowed only when every captured frame is a clean or benignly altered frame of that sender, in order, complete
                    # (e.g. '01of13', upper case); anything else must have raised
                    if who is not None:
                        want = [(who2, k) for who2 in [who] for k in range(len(frames[who]))]
                        idx = [c[1] if c is not None and payloads[c[0]] == payloads[who] else None for c in clean_of]
                        if plan.get("relabel") or idx != list(range(len(frames[who]))):
                            # relabelled or header-mutated lists can still be complete and in order: accept iff the payload
                            # strings concatenate to the sender's encoding (then nothing was missing or foreign)
                            got_body = "".join(c.lower().strip().split("/")[-1] for c in captured)
                            exp_body = "".join(x.split("/")[-1] for x in frames[who])
                            if got_body != exp_body:
                                fail("A2", "accepted_incomplete_or_foreign", f"parse returned sender {who}'s payload from a list whose parts do not concatenate to its encoding ({len(captured)} frames captured)")
    else:
        col = Collector()
        done = None
        for k, f in enumerate(captured):
            tr.probe("frames_handed")
            obj = col.feed(f, tr)
            tr.state("col", min(sum(len(g) for g in col.groups.values()), 20), col.attempts)
            if obj is not None:
                done = k
                outcome = "returned"
                check_result(obj, payloads, "collect")
                break
        if plan.get("drain") and done is None:
            # bounded liveness: after the faulty phase, two clean loops of sender 0 must be enough
            tr.oracle("A4")
            for loop in range(2):
                for f in frames[0]:
                    obj = col.feed(f, tr)
                    if obj is not None:
                        done = -1
                        outcome = "returned-in-drain"
                        check_result(obj, payloads, "collect")
                        break
                if done is not None:
                    break
            if done is None:
                fail("A4", "no_reassembly_after_drain", f"collecting receiver did not reassemble within two clean loops after the faults stopped ({len(frames[0])} parts)")
    tr.ev("receiver", "outcome", outcome)
    tr.state("out", rec, outcome, len(captured))
    return {"mode": mode, "receiver": rec, "senders": [{"len": s["len"], "chunk": s.get("chunk"), "parts": len(fr)} for s, fr in zip(senders, frames)],
            "captured": len(captured), "outcome": outcome, "steps": [(st["s"], st["i"], (st.get("mut") or {}).get("kind")) for st in plan["steps"][:12]]}


# ------------------------------------------------------------------------------------------------

MUT_KINDS = ["sub_payload", "sub_payload", "sub_checksum", "sub_nonbech", "swap2", "case_one", "header_x", "header_y", "header_text", "upper", "whitespace", "truncate", "prefix"]


def gen_len(ch, chunk, big_ok):
    m = ch.randrange(10)
    if m < 3:
        return ch.choice([0, 1, 22, 23, 24, 25, 254, 255, 256, 257])
    if m < 5:
        # around multiples of the chunk size (in encoded characters: 8 chars per 5 bytes)
        k = ch.randrange(1, 6)
        return max(0, (k * chunk * 5) // 8 + ch.randrange(-3, 4))
    if m == 5 and big_ok:
        return ch.choice([65535, 65536, 65534, 65537, 70000])
    if m < 8:
        return ch.randrange(0, 600)
    return ch.randrange(0, 5000)


def gen_mut(ch):
    k = ch.choice(MUT_KINDS)
    return {"kind": k, "pos": ch.randrange(0, 100000), "c": ch.randrange(0, 1000), "v": ch.choice([0, 1, 2, 3, 4, 5, 7, 100])}


def generate(ch, tier, prop):
    big_ok = ch.chance(0.02 if tier == "quick" else 0.05)
    mode = "single" if ch.chance(0.12) else "multi"
    chunk = ch.choice([1, 2, 3, 5, 7, 10, 50, 100, 299, 300, 301, 1000, 2000]) if ch.chance(0.7) else ch.randrange(1, 2001)
    nsend = 2 if ch.chance(0.3) else 1
    senders = []
    for k in range(nsend):
        L = gen_len(ch, chunk, big_ok)
        if big_ok and L > 20000:
            chunk = max(chunk, 500)  # keep the frame count sane for 64 kB payloads
        s = {"len": L, "pseed": ch.randrange(1 << 30), "chunk": chunk if k == 0 or ch.chance(0.6) else ch.randrange(1, 2001), "animate": ch.chance(0.9),
             "fill": ch.choice(["rand", "rand", "rand", "zero", "ff"])}
        if mode == "single":
            s["use_checksum"] = ch.chance(0.7)
        elif ch.chance(0.3):
            c0 = s["chunk"]
            s["redraws"] = [{"chunk": ch.choice([c0, c0, max(1, c0 - 1), c0 + 1, ch.randrange(1, 2001), 100000]), "animate": ch.chance(0.85)} for _ in range(ch.randrange(1, 4))]
            for rd in s["redraws"]:
                if ch.chance(0.4):
                    rd["consume"] = ch.choice(["pop", "reverse", "overwrite"])
            if ch.chance(0.3):
                s["fresh_obj"] = True
        senders.append(s)
    if nsend == 2 and ch.chance(0.3):
        senders[1] = dict(senders[0])  # same payload, same part count: cross-talk of an identical animation
        if ch.chance(0.5):
            senders[1]["pseed"] += 1  # same length and part count, different data
    # frame counts are needed to build a realistic capture sequence: estimate from encoded length
    def nparts(s):
        L = s["len"]
        cbor = L + (1 if L <= 23 else 2 if L <= 255 else 3 if L <= 65535 else 5)
        enc = (cbor * 8 + 4) // 5 + 6
        return 1 if not s.get("animate", True) or mode == "single" else -(-enc // s["chunk"])

    n0 = nparts(senders[0])
    fault_free = ch.chance(0.25)
    kinds = [] if fault_free else [k for k in ["loss", "dup", "reorder", "rotation", "corrupt", "crosstalk", "relabel"] if ch.chance(0.45)]
    loops = ch.randrange(1, 4)
    rot = ch.randrange(0, n0) if "rotation" in kinds else 0
    seq = [(0, (rot + k) % n0) for k in range(loops * n0)] if n0 <= 400 else [(0, k) for k in range(n0)]
    if not ("rotation" in kinds) and loops == 1:
        seq = [(0, k) for k in range(n0)]
    steps = []
    lost = []
    p = ch.choice([0.02, 0.1, 0.3])
    for (s, i) in seq:
        if "loss" in kinds and ch.chance(p):
            lost.append(i)
            continue
        st = {"s": s, "i": i}
        if "corrupt" in kinds and ch.chance(p):
            st["mut"] = gen_mut(ch)
        steps.append(st)
        if "dup" in kinds and ch.chance(p):
            steps.append({"s": s, "i": i, "fault": "dup"})
        if "crosstalk" in kinds and nsend == 2 and ch.chance(p):
            steps.append({"s": 1, "i": ch.randrange(0, max(1, nparts(senders[1]))), "fault": "crosstalk"})
    if "reorder" in kinds and len(steps) >= 2:
        for _ in range(ch.randrange(1, 4)):
            a, b = ch.randrange(len(steps)), ch.randrange(len(steps))
            steps[a], steps[b] = steps[b], steps[a]
            steps[a] = dict(steps[a], fault="reorder")
    plan = {"mode": mode, "senders": senders, "receiver": ch.choice(["naive", "naive", "collect"]) if mode == "multi" else "naive", "steps": steps}
    if lost:
        plan["lost"] = lost
    if rot:
        plan["rotation"] = rot
    if "relabel" in kinds and mode == "multi" and ch.chance(0.5):
        plan["relabel"] = ch.choice([0, 0, 1, 2, n0])
    if plan["receiver"] == "collect":
        plan["drain"] = ch.chance(0.7)
    return plan


def enumerate_plans(tier, prop, seed):
    # (1) every sequence over the parts, part counts <= 4
    for n, maxlen in ((1, 2), (2, 3), (3, 4), (4, 4)):
        # choose a payload whose encoding splits in exactly n parts at chunk 20
        L = {1: 4, 2: 14, 3: 27, 4: 40}[n]
        base = {"mode": "multi", "senders": [{"len": L, "pseed": 1000 + seed + n, "chunk": 20, "animate": True}], "receiver": "naive"}
        for ln in range(1, maxlen + 1):
            for seq in product(range(n), repeat=ln):
                yield dict(base, steps=[{"s": 0, "i": i} for i in seq], enum="orders")
    # (2) two senders with the same part count: every interleaving choice per position
    base = {"mode": "multi", "senders": [{"len": 27, "pseed": 2000 + seed, "chunk": 20, "animate": True}, {"len": 27, "pseed": 2001 + seed, "chunk": 20, "animate": True}], "receiver": "naive"}
    for mask in range(1 << 3):
        yield dict(base, steps=[{"s": (mask >> k) & 1, "i": k, "fault": "crosstalk" if (mask >> k) & 1 else None} for k in range(3)], enum="crosstalk")
    # (3) every position of every part of a sampled payload x replacement characters
    reps = range(31) if tier == "thorough" else (0, 7, 30)
    base = {"mode": "multi", "senders": [{"len": 20, "pseed": 3000 + seed, "chunk": 24, "animate": True}], "receiver": "naive"}
    for part in range(2):
        for pos in range(24):
            for c in reps:
                steps = [{"s": 0, "i": 0}, {"s": 0, "i": 1}]
                steps[part] = dict(steps[part], mut={"kind": "sub_payload", "pos": pos, "c": c, "v": 0})
                yield dict(base, steps=steps, enum="subst")
        for pos in range(58):
            for c in reps:
                steps = [{"s": 0, "i": 0}, {"s": 0, "i": 1}]
                steps[part] = dict(steps[part], mut={"kind": "sub_checksum", "pos": pos, "c": c, "v": 0})
                yield dict(base, steps=steps, enum="subst")
    # (4) single-part codes: every position
    for use_cs in (True, False):
        base = {"mode": "single", "senders": [{"len": 12, "pseed": 4000 + seed, "chunk": 300, "use_checksum": use_cs}], "receiver": "naive"}
        for pos in range(32):
            for c in reps:
                yield dict(base, steps=[{"s": 0, "i": 0, "mut": {"kind": "sub_payload", "pos": pos, "c": c, "v": 0}}], enum="subst1")
    # (4b) redraw histories: every ordered pair/triple of chunk sizes from a small set on the same sender object
    sizes = (5, 6, 7, 20, 21, 1000) if tier == "quick" else (1, 2, 5, 6, 7, 8, 19, 20, 21, 40, 1000)
    for L in ((27,) if tier == "quick" else (0, 4, 27, 40)):
        for hist in list(product(sizes, repeat=2)) + (list(product(sizes[:4], repeat=3)) if tier == "thorough" else []):
            for anim_last in (True, False):
                yield {"mode": "multi", "senders": [{"len": L, "pseed": 4500 + seed, "chunk": hist[-1], "animate": anim_last, "redraws": [{"chunk": c, "animate": True} for c in hist[:-1]]}],
                       "receiver": "naive", "steps": [], "enum": "redraws"}
            # the same histories with every earlier list used up by its owner, the captured frames coming from the same or a new object
            for consume in ("pop", "reverse", "overwrite"):
                for fresh in (False, True):
                    yield {"mode": "multi", "senders": [{"len": L, "pseed": 4500 + seed, "chunk": hist[-1], "animate": True, "fresh_obj": fresh,
                                                         "redraws": [{"chunk": c, "animate": True, "consume": consume} for c in hist[:-1]]}],
                           "receiver": "naive", "steps": [], "enum": "redraws_consumed"}
    # (5) CBOR boundaries and chunk-size sweep on clean deliveries
    for L in (0, 1, 22, 23, 24, 25, 254, 255, 256, 257):
        for chunk in (1, 2, 3, 7, 50, 300):
            yield {"mode": "multi", "senders": [{"len": L, "pseed": 5000 + seed + L, "chunk": chunk, "animate": True}], "receiver": "naive", "steps": [], "enum": "sizes"}
    if tier == "thorough":
        for L in range(0, 700):
            for chunk in (1, 2, 3, 4, 5, 6, 7, 8, 9, 10, 11, 13, 16, 17, 31, 32, 33, 64, 100, 255, 256, 300, 500, 1000, 2000):
                yield {"mode": "multi", "senders": [{"len": L, "pseed": 6000 + seed + L, "chunk": chunk, "animate": True}], "receiver": "naive", "steps": [], "enum": "sizes"}
        for L in (65534, 65535, 65536, 65537, 70000):
            yield {"mode": "multi", "senders": [{"len": L, "pseed": 7000 + seed + L, "chunk": 2000, "animate": True}], "receiver": "naive", "steps": [], "enum": "sizes"}
            yield {"mode": "single", "senders": [{"len": L, "pseed": 7000 + seed + L, "chunk": 2000}], "receiver": "naive", "steps": [], "enum": "sizes"}


def shrink(plan):
    for i, st in enumerate(plan["steps"]):
        if st.get("mut"):
            p = dict(plan, steps=[dict(x) for x in plan["steps"]])
            del p["steps"][i]["mut"]
            yield p
    if len(plan["senders"]) > 1:
        yield dict(plan, senders=plan["senders"][:1], steps=[s for s in plan["steps"] if s["s"] == 0])
    for k, sd in enumerate(plan["senders"]):
        rds = sd.get("redraws") or []
        for j in range(len(rds)):
            yield dict(plan, senders=plan["senders"][:k] + [dict(sd, redraws=rds[:j] + rds[j + 1 :])] + plan["senders"][k + 1 :])
    for key in ("relabel", "drain", "rotation", "lost"):
        if plan.get(key):
            p = dict(plan)
            del p[key]
            yield p
    s0 = plan["senders"][0]
    if s0["len"] > 30:
        for L in (s0["len"] // 2, s0["len"] - 1):
            yield dict(plan, senders=[dict(s0, len=L)] + plan["senders"][1:])
    if s0.get("fill", "rand") != "zero":
        yield dict(plan, senders=[dict(s0, fill="zero")] + plan["senders"][1:])
