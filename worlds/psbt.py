"""W-PSBT: a signing ceremony (creator/updater, n signers, combiner, finaliser, extractor) over an unreliable and
possibly hostile channel (C10, C11).

Real code: PSBT.create/update/parse/serialize/sign/sign_with_private_keys/combine/finalize/final_tx/validate,
describe_basic_multisig, create_multisig_psbt, NamedHDPublicKey, HDPrivateKey.traverse, Tx.verify.
Stub: funding transactions and wallet scripts (ref/wallet, ref/txmodel), the transport (explicit delivery schedule with
duplication, staleness, loss, corruption, cross-talk), node crash/restart (only the last stored serialisation survives),
Byzantine signer and Byzantine coordinator behaviours.
"""
import base64
from io import BytesIO

from buidl.ecc import PrivateKey
from buidl.hd import HDPrivateKey, HDPublicKey
from buidl.psbt import PSBT, NamedHDPublicKey
from buidl.psbt_helper import create_multisig_psbt
from buidl.script import RedeemScript, ScriptPubKey, WitnessScript
from buidl.tx import Tx, TxIn, TxOut

from ref import psbtmap, secp, sighash as rs, stdverify, txmodel as tm, wallet as rw
from sim.core import SimDeadlock, Violation, plan_rng

WORLD = "psbt"
TIME_UNIT = "logical time: delivered messages and node-local steps (no timers in this world)"
ALLOW_EMPTY_STEPS = True

COMPONENTS = {
    "real": ["buidl.psbt.PSBT create/update/parse/serialize/validate/sign/sign_with_private_keys/combine/finalize/final_tx", "PSBT.describe_basic_multisig and helpers", "buidl.psbt_helper.create_multisig_psbt (p2sh wallets)",
             "NamedHDPublicKey/NamedPublicKey, HDPrivateKey.traverse, HDPublicKey.traverse", "Tx.verify / verify_input on the extracted transaction"],
    "stub": ["wallet keys, funding transactions and expected scripts (ref/wallet, ref/txmodel)", "transport: explicit delivery schedule with duplication, staleness, loss, in-flight corruption, cross-talk",
             "node crash/restart (durable = last stored serialisation)", "Byzantine signer (foreign-key / wrong-transaction signatures) and Byzantine coordinator (tampering catalogue)", "third-party creators/finalisers (both UTXO records, previous transaction only, no empty final-scriptSig record), built from the library's bytes with ref/psbtmap"],
}
LEVEL = {"C10": "exploration", "C11": "exploration"}
RULE = {
    "C10": "plans drawn from Chooser(VERIF_SEED/psbt/C10/index): a wallet (p2pkh, p2wpkh, p2sh-p2wpkh, or m-of-n p2sh / p2wsh / p2sh-p2wsh with 1<=m<=n<=3 (thorough: 4)), 1-3 inputs, payee and optional change outputs, optional global "
    "xpubs and unknown key-value pairs, creator building the spend with segwit False/True, then an explicit delivery schedule between coordinator and signers (star, chain, gossip or mixed) with duplicated, stale, lost and "
    "corrupted messages, cross-talk from another spend, coordinator/signer crash-restart, Byzantine signers, and finalisation attempts. Non-trivial = at least two messages were processed and a finalisation was attempted; distinct = distinct event-log digest.",
    "C11": "plans drawn from Chooser(VERIF_SEED/psbt/C11/index): an m-of-n p2sh or p2wsh wallet, a spend with payee(s) and optional change, a coordinator->signer message that is honest, tampered with one entry of the property's "
    "catalogue (swapped output scriptPubKey keeping change metadata, foreign redeem/witness script, foreign fingerprint, wrong path, change keys all from one cosigner, altered UTXO amount or previous transaction, changed quorum, second change output) "
    "or hit by 1-2 random byte corruptions, and an honest signer that reviews with describe_basic_multisig before signing. Non-trivial = the review ran on a message that parsed; distinct = distinct event-log digest.",
}
ASSUMPTIONS = {
    "C10": ["ref/psbtmap.py, ref/stdverify.py, ref/secp.py, ref/sighash.py are correct (self-tested)", "signing is deterministic (RFC 6979), so the canonical schedule re-signs to the same signatures",
            "byte-equality with the canonical schedule is demanded only in runs where no corrupted message was accepted"],
    "C11": ["ref/wallet.py BIP32 derivation and script construction are correct (cross-checked with the BIP32 vectors)", "ground truth for amounts is the stub's funding transactions",
            "'change' means: the output's scriptPubKey in the received unsigned transaction commits to an m-of-n script with the inputs' quorum made of exactly one child key of every cosigner account at the path the PSBT states"],
}
TIERS = {
    "C10": {"quick": {"runs": 150, "chunk": 2, "per_run_timeout": 900, "wall_cap": 500, "minimise_budget": 400}, "thorough": {"runs": 4000, "chunk": 4, "per_run_timeout": 1800, "wall_cap": 2400, "minimise_budget": 900}},
    "C11": {"quick": {"runs": 260, "chunk": 3, "per_run_timeout": 900, "wall_cap": 500, "minimise_budget": 400}, "thorough": {"runs": 8000, "chunk": 5, "per_run_timeout": 1800, "wall_cap": 2400, "minimise_budget": 900}},
}

POOL = 6
BIGPOOL = 16  # cosigners available to the large-quorum wallets of the enumerated families (random plans draw from the first POOL)
SEEDS = [tm.sha256(b"verif-cosigner-%d" % i) for i in range(BIGPOOL)]
_COS = {}
_HDPRIV = {}
_PRIVKEY = {}
_TR = [None]


def fail(prop, oracle, detail, msg):
    _TR[0].fail(prop, oracle, detail, msg)


def nontrivial(res):
    p = res["probes"]
    return (p.get("processed", 0) >= 2 and p.get("finalize_attempts", 0) > 0) or p.get("reviews", 0) > 0


ACCOUNT_PATHS = ["m/45'/0", "m/48'/0'/0'/2'", "m/84'/0'/0'", "m/44'", "m/48'", "m/84'", "m/49'/0'/0'", "m"]


def cosigner(i, path="m/45'/0"):
    if (i, path) not in _COS:
        _COS[(i, path)] = rw.Cosigner(SEEDS[i], path, "mainnet")
    return _COS[(i, path)]


def hd_priv(i):
    if i not in _HDPRIV:
        _HDPRIV[i] = HDPrivateKey.from_seed(SEEDS[i], network="mainnet")
    return _HDPRIV[i]


def priv_key(secret):
    if secret not in _PRIVKEY:
        _PRIVKEY[secret] = PrivateKey(secret)
    return _PRIVKEY[secret]


def child_xpub_b58(c, branch, index):
    """serialised child xpub computed by the reference (lets the harness hand HDPublicKey objects to the creator without paying for library derivations)"""
    pt, cc = c.account_pub
    p1, c1 = secp.ckd_pub(pt, cc, branch)
    p2, c2 = secp.ckd_pub(p1, c1, index)
    payload = rw.XPUB_VERSION["mainnet"] + bytes([c.account_depth + 2]) + secp.hash160(secp.sec(p1))[:4] + index.to_bytes(4, "big") + c2 + secp.sec(p2)
    return rw.b58check(payload)


def lib_script(b, cls):
    return cls.parse(BytesIO(tm.compact_size(len(b)) + b))


class Setup:
    """Ground truth of a spend: wallet, funding, unsigned transaction (reference model)."""

    def __init__(self, plan):
        w = plan["wallet"]
        self.kind = w["kind"]
        self.m = w.get("m", 1)
        self.cos = [cosigner(i, w.get("account_path", "m/45'/0")) for i in w["cosigners"]]
        self.cos_idx = list(w["cosigners"])
        self.n = len(self.cos)
        self.multi = self.kind in ("p2sh", "p2wsh", "p2sh_p2wsh")
        self.inputs = []
        self.funding = {}
        for k, inp in enumerate(plan["inputs"]):
            pks = [secp.sec(c.child_pub(inp["branch"], inp["index"])) for c in self.cos]
            spk, redeem, ws = rw.spend_script(self.kind, self.m, pks)
            r = plan_rng(inp["fund_seed"], "fund")
            outs = [{"amount": r.randrange(1000, 10**7), "spk": tm.spk_p2pkh(r.getrandbits(160).to_bytes(20, "big"))} for _ in range(inp.get("vout", 0))]
            outs.append({"amount": inp["amount"], "spk": spk})
            ftx = {"version": 2, "ins": [{"txid": r.getrandbits(256).to_bytes(32, "big"), "vout": 0, "script_sig": b"", "sequence": 0xFFFFFFFE, "witness": [b"\x01" * 71, b"\x02" * 33] if r.random() < 0.5 else []}], "outs": outs, "locktime": 0}
            if not ftx["ins"][0]["witness"]:
                ftx["ins"][0]["script_sig"] = tm.script(b"\x30" * 71, b"\x02" * 33)
            fid = tm.txid(ftx)
            self.funding[fid] = ftx
            self.inputs.append({"txid": fid, "vout": inp.get("vout", 0), "amount": inp["amount"], "spk": spk, "redeem": redeem, "ws": ws, "pks": pks, "branch": inp["branch"], "index": inp["index"]})
        self.outputs = [{"amount": o["amount"], "spk": bytes.fromhex(o["spk"]), "change": False} for o in plan["outputs"]]
        self.change = None
        if plan.get("change"):
            ch = plan["change"]
            pks = [secp.sec(c.child_pub(1, ch["index"])) for c in self.cos]
            spk, redeem, ws = rw.spend_script(self.kind, self.m, pks)
            self.change = {"amount": ch["amount"], "spk": spk, "redeem": redeem, "ws": ws, "pks": pks, "index": ch["index"], "pos": ch.get("pos", 0) % (len(self.outputs) + 1)}
            self.outputs.insert(self.change["pos"], {"amount": ch["amount"], "spk": spk, "change": True})
        self.total_in = sum(i["amount"] for i in self.inputs)
        self.total_out = sum(o["amount"] for o in self.outputs)
        self.fee = self.total_in - self.total_out
        helper = bool(plan.get("creator", {}).get("helper")) and self.kind == "p2sh"
        if helper:
            # create_multisig_psbt fixes these itself
            plan = dict(plan, version=1, locktime=0, sequence=0xFFFFFFFF)
        self.tx = {"version": plan.get("version", 1), "ins": [{"txid": i["txid"], "vout": i["vout"], "script_sig": b"", "sequence": plan.get("sequence", 0xFFFFFFFF), "witness": []} for i in self.inputs],
                   "outs": [{"amount": o["amount"], "spk": o["spk"]} for o in self.outputs], "locktime": plan.get("locktime", 0)}
        self.spent = [(i["amount"], i["spk"]) for i in self.inputs]

    # ---- the creator/updater (real library code)
    def create_psbt(self, plan):
        cr = plan.get("creator", {})
        if cr.get("helper") and self.kind == "p2sh":
            return self.create_with_helper(plan)
        tx_lookup = {}
        for fid, ftx in self.funding.items():
            t = Tx.parse(BytesIO(tm.ser_tx(ftx)), network="mainnet")
            tx_lookup[t.hash()] = t
        pubkey_lookup, redeem_lookup, witness_lookup, hd_pubs = {}, {}, {}, {}
        where = [(i["branch"], i["index"]) for i in self.inputs] + ([(1, self.change["index"])] if self.change else [])
        for c in self.cos:
            for (branch, index) in sorted(set(where)):
                child = HDPublicKey.parse(child_xpub_b58(c, branch, index))
                named = NamedHDPublicKey.from_hd_pub(child_hd_pub=child, xfp_hex=c.fingerprint.hex(), path=c.child_path(branch, index))
                pubkey_lookup[named.sec()] = named
                pubkey_lookup[named.hash160()] = named
            if cr.get("xpubs"):
                acc = NamedHDPublicKey.from_hd_pub(child_hd_pub=HDPublicKey.parse(c.xpub()), xfp_hex=c.fingerprint.hex(), path=c.account_path)
                hd_pubs[acc.raw_serialize()] = acc
        if cr.get("lookup_helper") and not self.multi:
            # the updater's key lookup comes from the library's own BIP44 helper on the account key, with gap limits that just cover the
            # receiving (external) and change (internal) indices in use
            c = self.cos[0]
            acc = NamedHDPublicKey.from_hd_pub(child_hd_pub=HDPublicKey.parse(c.xpub()), xfp_hex=c.fingerprint.hex(), path=c.account_path)
            e_max = max([ix for (b, ix) in where if b == 0] + [0])
            i_max = max([ix for (b, ix) in where if b == 1] + [0])
            pubkey_lookup = acc.bip44_lookup(max_external=e_max, max_internal=i_max)
        for item in self.inputs + ([self.change] if self.change else []):
            if item["redeem"] is not None:
                redeem_lookup[tm.hash160(item["redeem"])] = lib_script(item["redeem"], RedeemScript)
            if item["ws"] is not None:
                witness_lookup[tm.sha256(item["ws"])] = lib_script(item["ws"], WitnessScript)
        tx_ins = [TxIn(i["txid"], i["vout"], None, self.tx["ins"][0]["sequence"]) for i in self.inputs]
        tx_outs = [TxOut(o["amount"], lib_script(o["spk"], ScriptPubKey)) for o in self.outputs]
        tx_obj = Tx(self.tx["version"], tx_ins, tx_outs, self.tx["locktime"], network="mainnet", segwit=bool(cr.get("segwit_flag")))
        p = PSBT.create(tx_obj, validate=True, tx_lookup=tx_lookup, pubkey_lookup=pubkey_lookup, redeem_lookup=redeem_lookup, witness_lookup=witness_lookup, hd_pubs=hd_pubs)
        if cr.get("unknown"):
            p.extra_map[b"\xfc\x05verif\x01"] = b"global-unknown"
            p.psbt_ins[0].extra_map[b"\xfc\x05verif\x02"] = b"in-unknown"
            p.psbt_outs[0].extra_map[b"\xfc\x05verif\x03"] = b""
        if cr.get("nonwitness_only") and self.kind in ("p2wpkh", "p2wsh", "p2sh_p2wpkh", "p2sh_p2wsh"):
            # other creators document native segwit inputs by the full previous transaction only (the library loads that shape)
            pm = psbtmap.parse(p.serialize())
            for k, im in enumerate(pm["inputs"]):
                im[:] = [(b"\x00", tm.ser_tx(self.funding[self.inputs[k]["txid"]]))] + [kv for kv in im if kv[0][:1] not in (b"\x00", b"\x01")]
            p = PSBT.parse(BytesIO(psbtmap.serialize(pm)), network="mainnet")
        elif cr.get("both_utxo") and self.kind in ("p2wpkh", "p2sh_p2wpkh", "p2wsh", "p2sh_p2wsh"):
            # as other creators do for segwit v0 inputs (BIP174 allows, and since the 2020 fee attack recommends, both records): every
            # input also carries its full previous transaction; the coordinator loads those bytes with the library
            pm = psbtmap.parse(p.serialize())
            for k, im in enumerate(pm["inputs"]):
                if not psbtmap.get(im, 0x00):
                    im.insert(0, (b"\x00", tm.ser_tx(self.funding[self.inputs[k]["txid"]])))
            p = PSBT.parse(BytesIO(psbtmap.serialize(pm)), network="mainnet")
        return p

    def create_with_helper(self, plan):
        records = [[c.fingerprint.hex(), c.xpub(), c.account_path] for c in self.cos]
        input_dicts = []
        for i in self.inputs:
            input_dicts.append({"quorum_m": self.m, "path_dict": {c.fingerprint.hex(): c.child_path(i["branch"], i["index"]) for c in self.cos},
                                "prev_tx_dict": {"hex": tm.ser_tx(self.funding[i["txid"]]).hex(), "hash_hex": i["txid"].hex(), "output_idx": i["vout"], "output_sats": i["amount"]}})
        output_dicts = []
        for o in self.outputs:
            spk = o["spk"]
            if spk[:2] == b"\xa9\x14":
                addr = rw.p2sh_address(spk, "mainnet")
            else:
                addr = lib_script(spk, ScriptPubKey).address(network="mainnet")
            d = {"sats": o["amount"], "address": addr}
            if o["change"]:
                d["quorum_m"] = self.m
                d["path_dict"] = {c.fingerprint.hex(): c.child_path(1, self.change["index"]) for c in self.cos}
            output_dicts.append(d)
        return create_multisig_psbt(public_key_records=records, input_dicts=input_dicts, output_dicts=output_dicts, fee_sats=self.fee, script_type="p2sh")


# ------------------------------------------------------------------------------------------------ reference views of a message


def ref_partial_sigs(pm, setup_like=None):
    """For each input of a psbtmap-parsed message: list of (pubkey, sig, ok) with ok judged by ref/secp over ref/sighash,
    using only the message's own fields (utxo, scripts). ok is None when the reference cannot judge."""
    tx = pm["tx"]
    out = []
    for idx, m in enumerate(pm["inputs"]):
        recs = psbtmap.get(m, 0x02)
        if not recs:
            out.append([])
            continue
        nw = psbtmap.get(m, 0x00)
        wu = psbtmap.get(m, 0x01)
        redeem = psbtmap.get(m, 0x04)
        ws = psbtmap.get(m, 0x05)
        redeem = redeem[0][1] if redeem else None
        ws = ws[0][1] if ws else None
        amount = spk = None
        try:
            if wu:
                r = tm.Reader(wu[0][1])
                amount = r.u64()
                spk = r.varbytes()
            elif nw:
                ptx, _ = tm.parse_tx(nw[0][1], strict=False)
                o = ptx["outs"][tx["ins"][idx]["vout"]]
                amount, spk = o["amount"], o["spk"]
        except Exception:
            pass
        if spk is None and not wu and not nw and setup_like is not None:
            # the message documents the input by no UTXO record at all: the spent output is the one the ledger knows for this outpoint
            f_ = setup_like.funding.get(tx["ins"][idx]["txid"])
            if f_ is not None and tx["ins"][idx]["vout"] < len(f_["outs"]):
                amount, spk = f_["outs"][tx["ins"][idx]["vout"]]["amount"], f_["outs"][tx["ins"][idx]["vout"]]["spk"]
        res = []
        for pk, sig in recs:
            ok = None
            try:
                if spk is not None and len(sig) >= 9:
                    ht = sig[-1]
                    # which algorithm a signature for this input uses follows from the spent script, not from which UTXO record
                    # documents it (a native segwit input may come with its previous transaction only)
                    def is_prog(b_):
                        return b_ is not None and ((len(b_) == 22 and b_[:2] == b"\x00\x14") or (len(b_) == 34 and b_[:2] == b"\x00\x20"))

                    segwit = bool(wu) or is_prog(spk) or is_prog(redeem)
                    if segwit:
                        if ws is not None:
                            sc = ws
                        elif redeem is not None and len(redeem) == 22 and redeem[:2] == b"\x00\x14":
                            sc = tm.spk_p2pkh(redeem[2:])
                        elif len(spk) == 22 and spk[:2] == b"\x00\x14":
                            sc = tm.spk_p2pkh(spk[2:])
                        else:
                            sc = None
                        d = rs.bip143(tx, idx, sc, amount, ht) if sc is not None else None
                    else:
                        sc = redeem if redeem is not None else spk
                        d = rs.legacy(tx, idx, sc, ht)
                    # a partial signature is a signature for the hash type its last byte names (BIP174: "signature as would be
                    # pushed to the stack"): judged over the digest of that type
                    if d is not None:
                        rs_ = secp.parse_der_lax(sig[:-1])
                        pt = secp.parse_sec(pk)
                        if rs_ is not None and pt is not None:
                            ok = secp.ecdsa_verify(pt, int.from_bytes(d, "big"), rs_[0], rs_[1])
                        else:
                            ok = False
            except Exception:
                ok = None
            res.append((pk, sig, ok))
        out.append(res)
    return out


class Node:
    def __init__(self, name, signer_idx=None):
        self.name = name
        self.signer_idx = signer_idx
        self.psbt = None
        self.durable = None
        self.history = []  # serialisations it stored, oldest first
        self.known = set()  # signer ids whose signatures its state should contain
        self.signed = False
        self.online = True
        self.tainted = False  # accepted a message that was corrupted / foreign / from a tainted node: its state is garbage-in
        self.taint_kinds = set()  # why its state is not clean (fault kinds of the unclean messages it accepted)
        self.received = []  # bytes of the untampered messages it accepted (what it could send again by mistake)
        self.inbox = []  # (parsed PSBT object handed to combine(), the bytes it was parsed from, clean?) - the objects are kept and reused


class Ceremony:
    def __init__(self, plan, prop, tr):
        self.plan = plan
        self.prop = prop
        self.tr = tr
        self.setup = Setup(plan)
        # the network argument the nodes give to PSBT.parse: explicit, or None (the library then infers it from the derivation paths)
        self.net = plan.get("net_arg", "mainnet")
        self.other = None
        self.tainted = False  # a corrupted / foreign message was accepted somewhere
        self.nodes = {"C": Node("C")}
        for j in range(self.setup.n):
            self.nodes[f"S{j}"] = Node(f"S{j}", j)
        self.p0 = None
        self.signed_by = {}  # honest signatures ever produced: signer -> True
        self.misreviewed = False

    # ---- codec oracles on every message a node emits
    def check_emitted(self, raw, who):
        tr = self.tr
        tr.oracle("Q1")
        try:
            again = PSBT.parse(BytesIO(raw), network=self.net).serialize()
        except SimDeadlock:
            raise
        except Exception as e:
            fail("C10", "Q1", "own_output_unparsable", f"{who} emitted a PSBT that the library cannot parse back: {type(e).__name__}: {e}")
            return
        if again != raw:
            fail("C10", "Q1", "codec_not_fixed_point", f"parse(serialize(x)).serialize() differs from serialize(x) for a PSBT emitted by {who} ({len(raw)} vs {len(again)} bytes)")
        tr.oracle("Q2")
        try:
            pm = psbtmap.parse(raw)
        except Exception as e:
            fail("C10", "Q2", "not_bip174_" + ("witness_format_unsigned_tx" if "segwit" in str(e) or True else "x"), f"{who} emitted bytes that are not a well-formed BIP174 map with a non-witness unsigned transaction: {e}")
            return
        if pm["tx_segwit_marker"]:
            fail("C10", "Q2", "witness_format_unsigned_tx", f"{who} emitted a PSBT whose global unsigned transaction is in witness serialisation")
        if any(i["script_sig"] for i in pm["tx"]["ins"]):
            fail("C10", "Q2", "unsigned_tx_has_scriptsig", f"{who} emitted a PSBT whose unsigned transaction has a non-empty scriptSig")

    def store(self, node):
        try:
            raw = node.psbt.serialize()
        except SimDeadlock:
            raise
        except Exception as e:
            if not node.tainted:
                fail("C10", "Q1", "serialize_raised", f"{node.name} could not serialise its PSBT although every message it accepted was untampered: {type(e).__name__}: {e}")
            # a node that accepted a corrupted message may hold records it cannot write back (garbage in): it keeps its last stored state
            self.tr.probe("tainted_node_cannot_serialise")
            return node.durable
        node.durable = raw
        node.history.append(raw)
        if not node.tainted:
            # after a node accepted corrupted metadata that nothing in the PSBT commits to (e.g. a witness-UTXO amount), what it
            # combines and emits is garbage-in/garbage-out: receivers still reject bad signatures at load (Q5) and nothing invalid
            # is extracted (Q4), but the codec fixed point is only demanded of nodes that saw clean messages
            self.check_emitted(raw, node.name)
        else:
            self.tr.probe("emissions_of_tainted_nodes")
        return raw

    # ---- coordinator start
    def start(self):
        c = self.nodes["C"]
        c.psbt = self.setup.create_psbt(self.plan)
        self.p0 = self.store(c)
        self.tr.ev("C", "create", f"{self.setup.kind}|{self.setup.m}of{self.setup.n}|in={len(self.setup.inputs)}|out={len(self.setup.outputs)}")
        if self.plan.get("creator", {}).get("lookup_helper") and not self.setup.multi:
            self.tr.fault("updater_uses_bip44_lookup_helper")

    # ---- signer behaviour
    def sign(self, node, p):
        s = self.setup
        j = node.signer_idx
        method = self.plan.get("sign_method", "keys")
        if method == "hd":
            ok = p.sign(hd_priv(s.cos_idx[j]))
        else:
            keys = [priv_key(s.cos[j].child_priv(i["branch"], i["index"])) for i in s.inputs]
            ok = p.sign_with_private_keys(keys)
        self.tr.ev(node.name, "sign", f"{method}|{bool(ok)}")
        return ok

    def review(self, node, p, raw):
        """C11: the signer looks at the summary before signing. Returns True if it would sign."""
        s = self.setup
        tr = self.tr
        if not s.multi or s.kind == "p2sh_p2wsh":
            return True
        tr.probe("reviews")
        hdmap = {c.fingerprint.hex(): HDPublicKey.parse(c.xpub()) for c in s.cos}
        self.updated_before_review = False
        try:
            if self.plan.get("review_update"):
                # the signer first refreshes the PSBT from its own records of the previous transactions (updater role), then reads
                # the summary: amounts must now be the genuine ones whatever the message claimed
                lookup = {fid: Tx.parse(BytesIO(tm.ser_tx(f)), network="mainnet") for fid, f in s.funding.items()}
                p.update(lookup, {})
                self.updated_before_review = True
                tr.fault("signer_updates_from_own_records")
            d = p.describe_basic_multisig(hdpubkey_map=hdmap)
            out = "summarised"
        except SimDeadlock:
            raise
        except Exception as e:
            d = None
            out = "refused:" + type(e).__name__
        tr.ev(node.name, "review", out)
        try:
            pm = psbtmap.parse(raw)
        except Exception:
            pm = None
        tr.state("review", out.split(":")[0], self.plan.get("tamper", {}).get("kind") if self.plan.get("tamper") else None, s.kind, s.m, s.n, len(s.inputs), bool(self.plan.get("review_update")),
                 bool(self.plan.get("creator", {}).get("helper")), s.change is not None)
        if d is None:
            tr.oracle("R3")
            if self.plan.get("_honest_message"):
                fail("C11", "R3", "honest_psbt_refused", f"an untampered {s.kind} {s.m}-of-{s.n} PSBT was refused by describe_basic_multisig: {out}")
            return False
        if pm is None:
            return True
        self.judge_summary(d, pm)
        return True

    def judge_summary(self, d, pm):
        """R1/R2 on a summary the library produced for the message pm (reference-parsed)."""
        s = self.setup
        tr = self.tr
        tx = pm["tx"]
        tr.oracle("R1")
        # ground truth of the inputs: the stub's funding transactions (by outpoint)
        true_in = 0
        known_all = True
        for i in tx["ins"]:
            f = s.funding.get(i["txid"])
            if f is None or i["vout"] >= len(f["outs"]):
                known_all = False
                break
            true_in += f["outs"][i["vout"]]["amount"]
        out_sum = sum(o["amount"] for o in tx["outs"])
        # is the message lying about the amount of an input that is documented by a witness UTXO only? (not verifiable from the
        # PSBT alone: the signature commits to the amount, the summary cannot check it)
        cause = ""
        for k, i in enumerate(tx["ins"]):
            f = s.funding.get(i["txid"])
            wu = psbtmap.get(pm["inputs"][k], 0x01) if k < len(pm["inputs"]) else []
            nw = psbtmap.get(pm["inputs"][k], 0x00) if k < len(pm["inputs"]) else []
            if f is not None and wu and not nw and i["vout"] < len(f["outs"]) and len(wu[0][1]) >= 8:
                if int.from_bytes(wu[0][1][:8], "little") != f["outs"][i["vout"]]["amount"]:
                    # a witness UTXO is the legitimate (and, without the previous transaction, unverifiable) record for an input that the
                    # MESSAGE presents as native p2wsh: whether its amount was altered or the outpoint was moved to another output, nothing
                    # in the PSBT lets the reader notice. Presented as a p2sh (legacy) output it must have been refused (fix 25).
                    claimed_spk = wu[0][1][9:] if len(wu[0][1]) > 9 else b""
                    cause = "_witness_utxo_amount" if (len(claimed_spk) == 34 and claimed_spk[:2] == b"\x00\x20") else "_witness_utxo_on_legacy_input"
                    if getattr(self, "updated_before_review", False):
                        cause += "_after_update_with_prev_tx"
        if known_all:
            if d["tx_fee_sats"] != true_in - out_sum:
                fail("C11", "R1", "fee_misstated" + cause, f"summary says fee {d['tx_fee_sats']} sats; the inputs are worth {true_in} and the outputs {out_sum}, fee {true_in - out_sum}")
            if d["total_input_sats"] != true_in:
                fail("C11", "R1", "inputs_misstated" + cause, f"summary says inputs total {d['total_input_sats']} sats; the spent outputs are worth {true_in}")
        if d["spend_sats"] + d["change_sats"] + d["tx_fee_sats"] != d["total_input_sats"]:
            fail("C11", "R1", "conservation", f"spend {d['spend_sats']} + change {d['change_sats']} + fee {d['tx_fee_sats']} != inputs {d['total_input_sats']}")
        # R5: every input that was summarised carries a script that commits to the genuinely spent output
        tr.oracle("R5")
        for k, i in enumerate(tx["ins"]):
            f = s.funding.get(i["txid"])
            if f is None or i["vout"] >= len(f["outs"]) or k >= len(pm["inputs"]):
                continue
            true_spk = f["outs"][i["vout"]]["spk"]
            red = psbtmap.get(pm["inputs"][k], 0x04)
            wsc = psbtmap.get(pm["inputs"][k], 0x05)
            red = red[0][1] if red else None
            wsc = wsc[0][1] if wsc else None
            ok = True
            if len(true_spk) == 23 and true_spk[:2] == b"\xa9\x14":
                ok = red is not None and tm.spk_p2sh(tm.hash160(red)) == true_spk
                if ok and wsc is not None:
                    ok = red == tm.spk_p2wsh(tm.sha256(wsc))
            elif len(true_spk) == 34 and true_spk[:2] == b"\x00\x20":
                ok = wsc is not None and tm.spk_p2wsh(tm.sha256(wsc)) == true_spk
            if not ok:
                fail("C11", "R5", "input_script_mismatch_" + (self.plan.get("tamper") or {}).get("kind", "corruption"), f"input {k} was summarised although its attached redeem/witness script does not commit to the output it spends")
        # R5 (outputs): a script attached to an output commits, by hash, to that output's scriptPubKey
        for k, om in enumerate(pm["outputs"]):
            if k >= len(tx["outs"]):
                break
            spk = tx["outs"][k]["spk"]
            red = psbtmap.get(om, 0x00)
            wsc = psbtmap.get(om, 0x01)
            red = red[0][1] if red else None
            wsc = wsc[0][1] if wsc else None
            ok = True
            if red is not None:
                ok = spk == tm.spk_p2sh(tm.hash160(red))
            if ok and wsc is not None:
                ok = spk == tm.spk_p2wsh(tm.sha256(wsc)) or (red is not None and red == tm.spk_p2wsh(tm.sha256(wsc)))
            if not ok:
                fail("C11", "R5", "output_script_mismatch_" + (self.plan.get("tamper") or {}).get("kind", "corruption"), f"output {k} was summarised although the redeem/witness script attached to it does not commit to its scriptPubKey")
        # R2: everything labelled change must be what the wallet can spend
        tr.oracle("R2")
        quorum_m = s.m
        for k, od in enumerate(d["outputs_desc"]):
            if not od.get("is_change"):
                continue
            tr.probe("change_labelled")
            spk = tx["outs"][k]["spk"]
            om = pm["outputs"][k]
            try:
                ders = psbtmap.derivations(om, 0x02)
            except Exception:
                ders = None
            red = psbtmap.get(om, 0x00)
            wsc = psbtmap.get(om, 0x01)
            script = (wsc[0][1] if wsc else (red[0][1] if red else None))
            why = None
            if ders is None or script is None:
                why = "no script / derivations attached"
            else:
                ms = stdverify.parse_multisig(script)
                if ms is None:
                    why = "attached script is not an m-of-n multisig"
                else:
                    m_, keys = ms
                    if wsc:
                        commits = spk == tm.spk_p2wsh(tm.sha256(script))
                    else:
                        commits = spk == tm.spk_p2sh(tm.hash160(script))
                    fps = [fp for _, fp, _ in ders]
                    if not commits:
                        why = "scriptPubKey of the unsigned transaction does not commit to the attached script"
                    elif m_ != quorum_m or len(keys) != s.n:
                        why = f"attached script is {m_}-of-{len(keys)}, the wallet is {quorum_m}-of-{s.n}"
                    elif sorted(fps) != sorted(c.fingerprint for c in s.cos):
                        why = "derivation records do not name every cosigner exactly once"
                    else:
                        derived = []
                        for pk, fp, idxs in ders:
                            c = [c for c in s.cos if c.fingerprint == fp][0]
                            pt = c.pub_at(idxs)
                            if pt is None or secp.sec(pt) != pk:
                                why = "a derivation record's key is not the cosigner's key at the stated path"
                                break
                            derived.append(pk)
                        if why is None and sorted(derived) != sorted(keys):
                            why = "script keys are not exactly the derived cosigner keys"
            if why is not None:
                self.misreviewed = True
                fail("C11", "R2", "change_mislabelled_" + (self.plan.get("tamper") or {}).get("kind", "corruption"), f"output {k} ({od['sats']} sats to {od['addr']}) is labelled change, but {why}")

    # ---- message processing
    def deliver(self, st):
        tr = self.tr
        src = self.nodes.get(st["src"])
        dst = self.nodes.get(st["dst"])
        if src is None or dst is None or src is dst:
            return
        if not dst.online:
            tr.fault("drop_offline")
            tr.ev("net", "drop", f"{st['src']}>{st['dst']}")
            return
        if src.durable is None:
            return
        raw = src.durable
        known = set(src.known)
        clean = not src.tainted
        older = src.history[:-1] + [r_ for r_ in src.received if r_ != src.durable]
        if st.get("stale") and older:
            # an older file is sent again: an earlier state of the node, or the message it had received before adding its own signature
            raw = older[(len(older) - st["stale"]) % len(older)]
            tr.fault("stale")
            # what that old version contained is unknown to the bookkeeping: recompute from the bytes below
            known = None
        if st.get("crosstalk"):
            raw = self.other_psbt()
            known = set()
            clean = False
            tr.fault("crosstalk")
        if st.get("byz") and src.signer_idx is not None:
            raw2 = self.byzantine_signer(src, raw, st["byz"])
            if raw2 is not None:
                raw = raw2
                clean = False
                tr.fault("byzantine_signer_" + st["byz"])
        if st.get("tamper") and st["src"] == "C":
            raw2 = self.tamper(raw, st["tamper"])
            if raw2 is not None and raw2 != raw:
                raw = raw2
                clean = False
                tr.fault("tamper_" + st["tamper"]["kind"])
        if st.get("corrupt_sig"):
            # in-flight corruption biased to where it matters: one bit inside one partial-signature value (or its key)
            cs = st["corrupt_sig"]
            try:
                pmx = psbtmap.parse(raw)
                slots = [(ii, kk) for ii, m_ in enumerate(pmx["inputs"]) for kk, (k_, v_) in enumerate(m_) if k_[:1] == b"\x02"]
                if slots:
                    ii, kk = slots[cs["which"] % len(slots)]
                    k_, v_ = pmx["inputs"][ii][kk]
                    if cs.get("in_key"):
                        kb = bytearray(k_)
                        kb[1 + cs["bit"] // 8 % (len(kb) - 1)] ^= 1 << (cs["bit"] % 8)
                        pmx["inputs"][ii][kk] = (bytes(kb), v_)
                    elif cs.get("retag") is not None:
                        # only the trailing hash-type byte changes: the same (r, s) now claims to sign another digest
                        new_ht = [0x02, 0x03, 0x81, 0x82, 0x83, 0x00, 0x04, 0x41][cs["retag"] % 8]
                        pmx["inputs"][ii][kk] = (k_, v_[:-1] + bytes([new_ht]))
                        tr.probe("partial_sig_retagged")
                    else:
                        vb = bytearray(v_)
                        vb[cs["bit"] // 8 % len(vb)] ^= 1 << (cs["bit"] % 8)
                        pmx["inputs"][ii][kk] = (k_, bytes(vb))
                    raw = psbtmap.serialize(pmx)
                    clean = False
                    tr.fault("corrupt_partial_sig")
                    tr.probe(f"corrupt_sig_slot_{'first' if kk == min(k for i2, k in slots if i2 == ii) else 'later'}_of_{sum(1 for i2, k in slots if i2 == ii)}")
            except Exception:
                pass
        if st.get("strip_utxo"):
            # the UTXO records are missing from the message (an incomplete export / a stripped copy): what it says about signatures
            # can then only be checked against the ledger
            try:
                pmx = psbtmap.parse(raw)
                for ii, m_ in enumerate(pmx["inputs"]):
                    pmx["inputs"][ii] = [kv for kv in m_ if kv[0][:1] not in (b"\x00", b"\x01")]
                raw = psbtmap.serialize(pmx)
                clean = False
                tr.fault("strip_utxo")
            except Exception:
                pass
        if st.get("amount_lie"):
            # the message (possibly carrying partial signatures that were already validated elsewhere in this process) is altered only in
            # data the txid does not commit to: the amount stated by every witness-UTXO record
            try:
                pmx = psbtmap.parse(raw)
                changed = False
                for m_ in pmx["inputs"]:
                    for kk, (k_, v_) in enumerate(m_):
                        if k_ == b"\x01" and len(v_) > 8:
                            amt = int.from_bytes(v_[:8], "little")
                            new = amt + st["amount_lie"] if amt + st["amount_lie"] > 0 else amt + abs(st["amount_lie"])
                            m_[kk] = (k_, new.to_bytes(8, "little") + v_[8:])
                            changed = True
                if changed:
                    had_sigs = any(k_[:1] == b"\x02" for m_ in pmx["inputs"] for (k_, v_) in m_)
                    raw = psbtmap.serialize(pmx)
                    clean = False
                    tr.fault("amount_lie_on_signed" if had_sigs else "amount_lie_on_unsigned")
            except Exception:
                pass
        if st.get("corrupt"):
            bb = bytearray(raw)
            for (pos, bit) in st["corrupt"]:
                bb[pos % len(bb)] ^= 1 << (bit % 8)
            raw = bytes(bb)
            clean = False
            tr.fault("corrupt")
        tr.ev("net", "msg", f"{st['src']}>{st['dst']}|{tm.sha256(raw).hex()[:16]}")
        wire = base64.b64encode(raw).decode() if self.plan.get("encoding", "b64") == "b64" else raw
        for rep in range(2 if st.get("dup") else 1):
            if rep:
                tr.fault("dup")
            self.process(dst, wire, raw, known, clean, st)

    def process(self, dst, wire, raw, known, clean, st):
        tr = self.tr
        tr.probe("processed")
        try:
            p = PSBT.parse_base64(wire, network=self.net) if isinstance(wire, str) else PSBT.parse(BytesIO(wire), network=self.net)
            outcome = "parsed"
        except SimDeadlock:
            raise
        except Exception as e:
            p = None
            outcome = "rejected:" + type(e).__name__
        tr.ev(dst.name, "recv", f"{st['src']}|{outcome}|clean={clean}")
        # Q5: load-time rejection of partial signatures that do not verify (judged by the reference on the received bytes)
        try:
            pm = psbtmap.parse(raw)
        except Exception:
            pm = None
        if pm is not None:
            sigs = ref_partial_sigs(pm, self.setup)
            bad = [(i, pk) for i, lst in enumerate(sigs) for (pk, sg, ok) in lst if ok is False]
            tr.oracle("Q5")
            if bad and p is not None:
                fail("C10", "Q5", "invalid_partial_sig_loaded", f"{dst.name} loaded a PSBT in which the partial signature for key {bad[0][1].hex()[:16]}.. on input {bad[0][0]} does not verify (reference ECDSA over the reference digest)")
            if bad:
                tr.probe("bad_partial_sig_messages")
        if p is None:
            if clean:
                fail("C10", "Q1", "honest_message_rejected", f"{dst.name} could not parse an untampered message from {st['src']}: {outcome}")
            return
        if not clean:
            self.tainted = True
            dst.tainted = True
            src_node = self.nodes.get(st.get("src"))
            kinds = set(src_node.taint_kinds) if src_node is not None else set()
            for key in ("crosstalk", "tamper", "corrupt_sig", "amount_lie", "corrupt", "strip_utxo"):
                if st.get(key):
                    kinds.add(key)
            if st.get("byz"):
                kinds.add("byz_" + st["byz"])
            dst.taint_kinds |= kinds or {"unknown"}
            tr.probe("unclean_message_accepted")
        elif not dst.tainted:
            dst.received.append(raw)
        if known is None:
            # stale version: derive which signers it contains from the bytes
            known = self.signers_in(pm) if pm is not None else set()
        # the signer's own step
        if dst.signer_idx is not None and dst.online and not st.get("no_sign"):
            self.plan["_honest_message"] = clean
            will = self.review(dst, p, raw)
            if will:
                try:
                    signed_ok = self.sign(dst, p)
                    if signed_ok:
                        known = set(known) | {dst.signer_idx}
                        self.signed_by[dst.signer_idx] = True
                        tr.oracle("R4")
                        if self.misreviewed:
                            pass  # already reported by R2
                    if clean and pm is not None and tm.txid(pm["tx"]) == tm.txid(self.setup.tx):
                        # order independence: whatever signatures the PSBT already carried when it reached this signer, after an
                        # honest signer (its key is in every input's script) has signed an untampered PSBT, its signature is in it
                        tr.oracle("Q3_signed")
                        try:
                            after_sign = self.signers_in(psbtmap.parse(p.serialize()))
                        except Exception:
                            after_sign = None
                        if after_sign is not None and dst.signer_idx not in after_sign:
                            fail("C10", "Q3", "signer_signature_missing_after_sign", f"{dst.name} signed an untampered PSBT that already carried the signatures of signers {sorted(known - {dst.signer_idx})} (sign returned {bool(signed_ok)}), "
                                 f"but its own signature is not in the PSBT afterwards: which signatures end up in the transaction depends on the order of signing")
                except SimDeadlock:
                    raise
                except Exception as e:
                    tr.ev(dst.name, "sign-raised", type(e).__name__)
                    if clean:
                        fail("C10", "Q7", "sign_raised", f"{dst.name} could not sign an untampered PSBT: {type(e).__name__}: {e}")
        # combine with own state
        if dst.psbt is not None:
            try:
                dst.psbt.combine(p)
                dst.known |= set(known)
                tr.ev(dst.name, "combine", "ok")
                if dst.signer_idx is None:
                    dst.inbox.append((p, raw, clean and not dst.tainted))
            except SimDeadlock:
                raise
            except Exception as e:
                tr.ev(dst.name, "combine", "raised:" + type(e).__name__)
                tr.oracle("Q6")
                same_tx = pm is not None and tm.txid(pm["tx"]) == tm.txid(self.setup.tx)
                try:
                    own_same = pm is not None and tm.txid(psbtmap.parse(dst.durable)["tx"]) == tm.txid(pm["tx"])
                except Exception:
                    own_same = False
                if same_tx and own_same and clean:
                    fail("C10", "Q6", "combine_same_tx_raised", f"{dst.name} could not combine two PSBTs of the same transaction: {type(e).__name__}: {e}")
                return
            # Q6: combining PSBTs of different transactions must raise
            if pm is not None and tm.txid(pm["tx"]) != tm.txid(psbtmap.parse(dst.durable)["tx"]):
                tr.oracle("Q6")
                fail("C10", "Q6", "combined_different_transactions", f"{dst.name} combined a PSBT of another transaction without an error")
        else:
            dst.psbt = p
            dst.known = set(known)
        self.store(dst)

    def signers_in(self, pm):
        s = self.setup
        found = set()
        for idx, m in enumerate(pm["inputs"]):
            for pk, _sig in psbtmap.get(m, 0x02):
                for j, c in enumerate(s.cos):
                    if idx < len(s.inputs) and secp.sec(c.child_pub(s.inputs[idx]["branch"], s.inputs[idx]["index"])) == pk:
                        found.add(j)
        return found

    def crash(self, st):
        node = self.nodes.get(st["node"])
        if node is None or node.durable is None:
            return
        self.tr.fault("crash_restart")
        try:
            node.psbt = PSBT.parse(BytesIO(node.durable), network=self.net)
        except SimDeadlock:
            raise
        except Exception as e:
            fail("C10", "Q1", "restart_from_own_bytes_failed", f"{node.name} could not reload the PSBT it had stored itself: {type(e).__name__}: {e}")
            node.psbt = None
        self.tr.ev(node.name, "crash-restart")

    def other_psbt(self):
        """a PSBT of a different spend of the same wallet (cross-talk)"""
        if self.other is None:
            plan2 = dict(self.plan)
            plan2["outputs"] = [dict(o, amount=o["amount"] + 1) for o in self.plan["outputs"]] or [{"amount": 1234, "spk": tm.spk_p2wpkh(bytes(20)).hex()}]
            plan2["creator"] = dict(self.plan.get("creator", {}), helper=False, segwit_flag=False)
            if plan2.get("change"):
                plan2["change"] = dict(plan2["change"], amount=max(1, plan2["change"]["amount"] - len(plan2["outputs"])))
            s2 = Setup(plan2)
            self.other = s2.create_psbt(plan2).serialize()
        return self.other

    def byzantine_signer(self, node, raw, kind):
        """The signer's reply carries, instead of an honest signature, a signature by a key outside the script or over another transaction."""
        s = self.setup
        try:
            pm = psbtmap.parse(raw)
        except Exception:
            return None
        j = node.signer_idx
        idx = 0
        m = pm["inputs"][idx]
        inp = s.inputs[idx]
        algo_sc = inp["ws"] if inp["ws"] is not None else (inp["redeem"] if inp["redeem"] is not None and s.kind == "p2sh" else None)
        segwit = s.kind in ("p2wpkh", "p2sh_p2wpkh", "p2wsh", "p2sh_p2wsh")
        if algo_sc is None:
            h = tm.hash160(inp["pks"][0])
            algo_sc = tm.spk_p2pkh(h)

        def der(r_, s_):
            def one(v):
                bb = v.to_bytes(33, "big").lstrip(b"\x00")
                if bb[0] & 0x80:
                    bb = b"\x00" + bb
                return b"\x02" + bytes([len(bb)]) + bb

            body = one(r_) + one(s_)
            return b"\x30" + bytes([len(body)]) + body + b"\x01"

        own_pk = secp.sec(s.cos[j].child_pub(inp["branch"], inp["index"]))
        own_secret = s.cos[j].child_priv(inp["branch"], inp["index"])
        if kind == "foreign_key":
            # a valid signature, but by a key that is not in the script (keyed under that foreign key)
            d = rs.bip143(pm["tx"], idx, algo_sc, inp["amount"], 1) if segwit else rs.legacy(pm["tx"], idx, algo_sc, 1)
            outsider = 0xDEADBEEF + j
            r_, s_ = secp.ecdsa_sign(outsider, int.from_bytes(d, "big"))
            rest = [kv for kv in m if not (kv[0][:1] == b"\x02" and kv[0][1:] == own_pk)]
            bad = (b"\x02" + secp.sec(secp.mul(outsider)), der(r_, s_))
            pm["inputs"][idx] = ([bad] + rest) if j % 2 == 0 else (rest + [bad])
        elif kind == "wrong_tx":
            # own key, but the signature is over a different transaction (locktime + 1)
            t2 = tm.clone(pm["tx"])
            t2["locktime"] = (t2["locktime"] + 1) % 2**32
            d = rs.bip143(t2, idx, algo_sc, inp["amount"], 1) if segwit else rs.legacy(t2, idx, algo_sc, 1)
            r_, s_ = secp.ecdsa_sign(own_secret, int.from_bytes(d, "big"))
            rest = [kv for kv in m if not (kv[0][:1] == b"\x02" and kv[0][1:] == own_pk)]
            bad = (b"\x02" + own_pk, der(r_, s_))
            pm["inputs"][idx] = ([bad] + rest) if (j + len(rest)) % 2 == 0 else (rest + [bad])
        elif kind == "declared_type":
            # own key; the reply DECLARES sighash NONE for the input (PSBT_IN_SIGHASH_TYPE) and carries a signature over the NONE
            # digest whose own trailing byte says ALL: as a signature of the type it names, it does not verify
            d = rs.bip143(pm["tx"], idx, algo_sc, inp["amount"], 2) if segwit else rs.legacy(pm["tx"], idx, algo_sc, 2)
            r_, s_ = secp.ecdsa_sign(own_secret, int.from_bytes(d, "big"))
            rest = [kv for kv in m if not (kv[0][:1] == b"\x02" and kv[0][1:] == own_pk) and kv[0] != b"\x03"]
            pm["inputs"][idx] = rest + [(b"\x02" + own_pk, der(r_, s_)), (b"\x03", (2).to_bytes(4, "little"))]
        else:
            return None
        # keep BIP174 ordering irrelevant: the library accepts any order
        return psbtmap.serialize(pm)

    # ---- Byzantine coordinator: the property's tampering catalogue, applied to the bytes in flight
    def tamper(self, raw, t):
        s = self.setup
        kind = t["kind"]
        a = t.get("a", 0)
        try:
            pm = psbtmap.parse(raw)
        except Exception:
            return None
        tx = pm["tx"]
        ch_pos = next((k for k, o in enumerate(s.outputs) if o["change"]), None)

        def put_tx():
            psbtmap.set_value(pm["global"], b"\x00", tm.ser_tx(tx, witness=False))

        evil = [secp.sec(secp.mul(0x1337 + a + i)) for i in range(s.n)]
        if kind == "swap_change_spk":
            if ch_pos is None:
                return None
            spk2, _, _ = rw.spend_script(s.kind, s.m, evil)
            tx["outs"][ch_pos]["spk"] = spk2
            put_tx()
        elif kind == "swap_change_spk_type":
            # same hash bytes, another output template (p2wsh -> p2tr, p2sh -> p2wpkh / p2pkh): metadata untouched
            if ch_pos is None:
                return None
            spk = tx["outs"][ch_pos]["spk"]
            if len(spk) == 34 and spk[:2] == b"\x00\x20":
                tx["outs"][ch_pos]["spk"] = tm.spk_p2tr(spk[2:])
            elif len(spk) == 23 and spk[:2] == b"\xa9\x14":
                h = spk[2:22]
                tx["outs"][ch_pos]["spk"] = [tm.spk_p2wpkh(h), tm.spk_p2pkh(h), tm.spk_p2wsh(h + bytes(12)), tm.spk_p2tr(h + bytes(12)), b"\x6a" + tm.push(h)][a % 5]
            else:
                return None
            put_tx()
        elif kind == "p2sh_input_as_witness_utxo":
            # a legacy p2sh multisig input documented by a (forged) witness UTXO record instead of its previous transaction
            k_in = a % len(pm["inputs"])
            im = pm["inputs"][k_in]
            nw = psbtmap.get(im, 0x00)
            if not nw or s.kind != "p2sh":
                return None
            true_spk = s.inputs[k_in]["spk"] if k_in < len(s.inputs) else None
            if true_spk is None:
                return None
            spk2 = true_spk if a % 2 == 0 else tm.spk_p2sh(bytes([a % 256]) * 20)
            lie = (s.inputs[k_in]["amount"] + 50000 + a).to_bytes(8, "little") + tm.compact_size(len(spk2)) + spk2
            pm["inputs"][k_in] = [(b"\x01", lie)] + [kv for kv in im if kv[0][:1] != b"\x00"]
        elif kind == "flip_change_spk_byte":
            if ch_pos is None:
                return None
            spk = bytearray(tx["outs"][ch_pos]["spk"])
            spk[2 + a % (len(spk) - 3)] ^= 1 << (a % 8)
            tx["outs"][ch_pos]["spk"] = bytes(spk)
            put_tx()
        elif kind == "foreign_script":
            if ch_pos is None:
                return None
            spk2, red2, ws2 = rw.spend_script(s.kind, s.m, evil)
            tx["outs"][ch_pos]["spk"] = spk2
            put_tx()
            om = pm["outputs"][ch_pos]
            if ws2 is not None:
                psbtmap.set_value(om, b"\x01", ws2)
            if red2 is not None:
                psbtmap.set_value(om, b"\x00", red2)
        elif kind == "foreign_fingerprint":
            target = pm["outputs"][ch_pos] if (ch_pos is not None and a % 2 == 0) else pm["inputs"][0]
            ktype = 0x02 if target is not pm["inputs"][0] else 0x06
            recs = [(k, v) for k, v in target if k[:1] == bytes([ktype])]
            if not recs:
                return None
            k, v = recs[a % len(recs)]
            newfp = [b"\xde\xad\xbe\xef", s.cos[(a + 1) % s.n].fingerprint][a % 2 if s.n > 1 else 0]
            if newfp == v[:4]:
                newfp = b"\xde\xad\xbe\xef"
            psbtmap.set_value(target, k, newfp + v[4:])
        elif kind == "wrong_path":
            target = pm["outputs"][ch_pos] if (ch_pos is not None and a % 2 == 0) else pm["inputs"][0]
            ktype = 0x02 if target is not pm["inputs"][0] else 0x06
            recs = [(k, v) for k, v in target if k[:1] == bytes([ktype])]
            if not recs:
                return None
            k, v = recs[a % len(recs)]
            last = int.from_bytes(v[-4:], "little")
            psbtmap.set_value(target, k, v[:-4] + ((last + 1 + a % 5) % 2**31).to_bytes(4, "little"))
        elif kind == "one_cosigner_keys":
            # change script whose keys all come from cosigner 0 (different indexes), every record carrying cosigner 0's fingerprint
            if ch_pos is None or s.n < 2:
                return None
            c0 = s.cos[0]
            idxs = [s.change["index"] + 100 + i for i in range(s.n)]
            pks = [secp.sec(c0.child_pub(1, ix)) for ix in idxs]
            spk2, red2, ws2 = rw.spend_script(s.kind, s.m, pks)
            tx["outs"][ch_pos]["spk"] = spk2
            put_tx()
            om = [kv for kv in pm["outputs"][ch_pos] if kv[0][:1] not in (b"\x00", b"\x01", b"\x02")]
            if red2 is not None:
                om.append((b"\x00", red2))
            if ws2 is not None:
                om.append((b"\x01", ws2))
            acc = secp.parse_path(c0.account_path)
            for pk, ix in zip(pks, idxs):
                om.append((b"\x02" + pk, c0.fingerprint + b"".join(i.to_bytes(4, "little") for i in acc + [1, ix])))
            pm["outputs"][ch_pos] = om
        elif kind == "one_cosigner_keys_spoofed_fps":
            # as above, but the records claim one key per cosigner fingerprint
            if ch_pos is None or s.n < 2:
                return None
            c0 = s.cos[0]
            idxs = [s.change["index"] + 100 + i for i in range(s.n)]
            pks = [secp.sec(c0.child_pub(1, ix)) for ix in idxs]
            spk2, red2, ws2 = rw.spend_script(s.kind, s.m, pks)
            tx["outs"][ch_pos]["spk"] = spk2
            put_tx()
            om = [kv for kv in pm["outputs"][ch_pos] if kv[0][:1] not in (b"\x00", b"\x01", b"\x02")]
            if red2 is not None:
                om.append((b"\x00", red2))
            if ws2 is not None:
                om.append((b"\x01", ws2))
            for pk, ix, c in zip(pks, idxs, s.cos):
                acc = secp.parse_path(c.account_path)
                om.append((b"\x02" + pk, c.fingerprint + b"".join(i.to_bytes(4, "little") for i in acc + [1, ix])))
            pm["outputs"][ch_pos] = om
        elif kind == "forge_change":
            # generic forged change: every key slot draws (which cosigner's key, at which path) and (which fingerprint and path the
            # record claims) independently; the R2 oracle decides whether the result is genuinely change
            if ch_pos is None or s.n < 2:
                return None
            r = plan_rng(a, "forge")
            inp0 = s.inputs[0]
            places = [(0, inp0["index"]), (1, s.change["index"]), (1, s.change["index"] + 1), (0, inp0["index"] + 1)]
            pks, recs = [], []
            for j in range(s.n):
                src = s.cos[r.choice([0, 0, j, r.randrange(s.n)])]
                kb, ki = r.choice(places)
                pk = secp.sec(src.child_pub(kb, ki))
                claim = s.cos[r.choice([j, j, r.randrange(s.n)])]
                cb_, ci_ = r.choice([(kb, ki), (kb, ki), r.choice(places)])
                acc = secp.parse_path(claim.account_path)
                pks.append(pk)
                recs.append((pk, claim.fingerprint + b"".join(i.to_bytes(4, "little") for i in acc + [cb_, ci_])))
            if len(set(pks)) != len(pks):
                return None
            spk2, red2, ws2 = rw.spend_script(s.kind, s.m, pks)
            tx["outs"][ch_pos]["spk"] = spk2
            put_tx()
            om = [kv for kv in pm["outputs"][ch_pos] if kv[0][:1] not in (b"\x00", b"\x01", b"\x02")]
            if red2 is not None:
                om.append((b"\x00", red2))
            if ws2 is not None:
                om.append((b"\x01", ws2))
            for pk, v in recs:
                om.append((b"\x02" + pk, v))
            pm["outputs"][ch_pos] = om
        elif kind == "nonwitness_utxo_foreign_script":
            # segwit input documented by the full previous transaction only, with a foreign witness/redeem script attached
            k_in = a % len(pm["inputs"])
            im = pm["inputs"][k_in]
            ftx = s.funding.get(tx["ins"][k_in]["txid"])
            if ftx is None:
                return None
            _, red2, ws2 = rw.spend_script(s.kind, s.m, evil)
            im2 = [kv for kv in im if kv[0][:1] != b"\x01" and kv[0][:1] != b"\x00"]
            im2.insert(0, (b"\x00", tm.ser_tx(ftx)))
            pm["inputs"][k_in] = im2
            done = False
            if ws2 is not None:
                done = psbtmap.set_value(im2, b"\x05", ws2)
            elif red2 is not None:
                done = psbtmap.set_value(im2, b"\x04", red2)
            if not done:
                return None
        elif kind == "both_utxo_records_disagree":
            # the input carries the genuine previous transaction AND a witness UTXO with another amount
            k_in = a % len(pm["inputs"])
            im = pm["inputs"][k_in]
            ftx = s.funding.get(tx["ins"][k_in]["txid"])
            if ftx is None:
                return None
            vout = tx["ins"][k_in]["vout"]
            o = ftx["outs"][vout]
            lie = (o["amount"] + 77777 + a).to_bytes(8, "little") + tm.compact_size(len(o["spk"])) + o["spk"]
            im2 = [kv for kv in im if kv[0][:1] not in (b"\x00", b"\x01")]
            recs = [(b"\x00", tm.ser_tx(ftx)), (b"\x01", lie)]
            if a % 2:
                recs.reverse()
            pm["inputs"][k_in] = recs + im2
        elif kind == "utxo_amount":
            im = pm["inputs"][a % len(pm["inputs"])]
            wu = psbtmap.get(im, 0x01)
            nw = psbtmap.get(im, 0x00)
            if wu:
                v = wu[0][1]
                amt = int.from_bytes(v[:8], "little")
                psbtmap.set_value(im, b"\x01", (amt + 50000 + a).to_bytes(8, "little") + v[8:])
            elif nw:
                ptx, sw = tm.parse_tx(nw[0][1], strict=False)
                vout = tx["ins"][a % len(pm["inputs"])]["vout"]
                ptx["outs"][vout]["amount"] += 50000 + a
                psbtmap.set_value(im, b"\x00", tm.ser_tx(ptx))
            else:
                return None
        elif kind == "other_prev_tx":
            im = pm["inputs"][a % len(pm["inputs"])]
            nw = psbtmap.get(im, 0x00)
            if not nw:
                return None
            ptx, sw = tm.parse_tx(nw[0][1], strict=False)
            ptx["locktime"] = (ptx["locktime"] + 1) % 2**32
            psbtmap.set_value(im, b"\x00", tm.ser_tx(ptx))
        elif kind == "changed_quorum":
            if ch_pos is None or s.n < 2:
                return None
            m2 = s.m - 1 if s.m > 1 else s.m + 1
            if t.get("m2"):
                m2 = t["m2"]
            if m2 == s.m or not (1 <= m2 <= s.n):
                return None
            spk2, red2, ws2 = rw.spend_script(s.kind, m2, s.change["pks"])
            tx["outs"][ch_pos]["spk"] = spk2
            put_tx()
            om = pm["outputs"][ch_pos]
            if ws2 is not None:
                psbtmap.set_value(om, b"\x01", ws2)
            if red2 is not None:
                psbtmap.set_value(om, b"\x00", red2)
        elif kind == "weak_quorum_dust_input":
            # dust attack: the adversary funds an output locked by a WEAKER quorum ((m-1)-of-n) over the cosigners' own keys, puts it in
            # front of the wallet's input(s), fully and correctly documented, and turns the change output into the same weak quorum
            if ch_pos is None or s.n < 2 or s.m < 2 or s.kind not in ("p2sh", "p2wsh"):
                return None
            m2 = s.m - 1
            ix = s.inputs[0]["index"] + 11 + a % 7
            pks_in = [secp.sec(c.child_pub(0, ix)) for c in s.cos]
            spk_in, red_in, ws_in = rw.spend_script(s.kind, m2, pks_in)
            dust = 600 + a % 400
            ftx = {"version": 2, "ins": [{"txid": tm.sha256(b"dust%d" % a), "vout": 0, "script_sig": tm.script(b"\x30" * 71, b"\x02" * 33), "sequence": 0xFFFFFFFE, "witness": []}],
                   "outs": [{"amount": dust, "spk": spk_in}], "locktime": 0}
            fid = tm.txid(ftx)
            s.funding[fid] = ftx  # the dust output genuinely exists on chain
            pos = 0 if a % 3 else len(tx["ins"])
            tx["ins"].insert(pos, {"txid": fid, "vout": 0, "script_sig": b"", "sequence": tx["ins"][0]["sequence"], "witness": []})
            tx["outs"][ch_pos]["amount"] += dust  # fee unchanged
            im = []
            if psbtmap.get(pm["inputs"][0], 0x00) or s.kind == "p2sh":
                im.append((b"\x00", tm.ser_tx(ftx)))
            else:
                im.append((b"\x01", dust.to_bytes(8, "little") + tm.compact_size(len(spk_in)) + spk_in))
            if red_in is not None:
                im.append((b"\x04", red_in))
            if ws_in is not None:
                im.append((b"\x05", ws_in))
            for pk, c in zip(pks_in, s.cos):
                acc = secp.parse_path(c.account_path)
                im.append((b"\x06" + pk, c.fingerprint + b"".join(i.to_bytes(4, "little") for i in acc + [0, ix])))
            pm["inputs"].insert(pos, im)
            spk2, red2, ws2 = rw.spend_script(s.kind, m2, s.change["pks"])
            tx["outs"][ch_pos]["spk"] = spk2
            put_tx()
            om = pm["outputs"][ch_pos]
            if ws2 is not None:
                psbtmap.set_value(om, b"\x01", ws2)
            if red2 is not None:
                psbtmap.set_value(om, b"\x00", red2)
        elif kind == "malformed_multisig_change":
            # the change output commits to a script that merely resembles the wallet's m-of-n multisig and contains the genuine change
            # keys (honest derivation records): wrong key count opcode, an extra foreign key, a dropped threshold, trailing foreign multisig
            if ch_pos is None or s.n < 2 or s.kind not in ("p2sh", "p2wsh"):
                return None
            pks = sorted(s.change["pks"]) if False else list(s.change["pks"])
            good = tm.multisig_script(s.m, pks)
            v = a % 5
            opn = lambda x: bytes([0x50 + x])
            keys_b = b"".join(tm.push(k_) for k_ in pks)
            if v == 0:
                script = opn(s.m) + keys_b + opn(s.n + 1) + b"\xae"  # n opcode one too large (consensus: m taken from the stack)
            elif v == 1:
                script = opn(s.m) + keys_b + tm.push(evil[0]) + opn(s.n) + b"\xae"  # a foreign key more than OP_n says
            elif v == 2:
                script = opn(s.m) + b"\x75" + opn(1) + keys_b + opn(s.n) + b"\xae"  # OP_m OP_DROP OP_1 ...: really 1-of-n
            elif v == 3:
                script = opn(s.m) + keys_b + b"\x6d" * ((s.n + 2) // 2) + b"\x51"  # keys dropped again, OP_1 left: anyone can spend
                script += b"" if True else b""
                script = script + b"\x51" + tm.push(evil[0]) + b"\x51\xae"
            else:
                script = opn(s.m) + keys_b[: len(keys_b) - 34] + tm.push(evil[0]) + opn(s.n) + b"\xae" if s.n >= 2 else good
            if script == good:
                return None
            if s.kind == "p2wsh":
                spk2, red2, ws2 = tm.spk_p2wsh(tm.sha256(script)), None, script
            else:
                spk2, red2, ws2 = tm.spk_p2sh(tm.hash160(script)), script, None
            tx["outs"][ch_pos]["spk"] = spk2
            put_tx()
            om = pm["outputs"][ch_pos]
            if ws2 is not None:
                psbtmap.set_value(om, b"\x01", ws2)
            if red2 is not None:
                psbtmap.set_value(om, b"\x00", red2)
            if v == 4:
                # the derivation record of the replaced key would name a key that is not in the script: drop it
                last = pks[-1]
                pm["outputs"][ch_pos] = [kv for kv in om if kv[0] != b"\x02" + last]
        elif kind == "lookalike_witness_program_change":
            # the change output pays to p2sh of a redeem script that only LOOKS like the p2wsh program of the wallet's change witness
            # script: the 32-byte hash is pushed with OP_PUSHDATA1/2/4, so consensus sees no witness program and never runs the
            # multisig (anyone who knows the 35 bytes can spend); the genuine witness script and derivations are attached
            if ch_pos is None or s.n < 2:
                return None
            ws_c = tm.multisig_script(s.m, s.change["pks"])
            h_ = tm.sha256(ws_c)
            red = [b"\x00\x4c\x20" + h_, b"\x00\x4d\x20\x00" + h_, b"\x00\x4e\x20\x00\x00\x00" + h_][a % 3]
            tx["outs"][ch_pos]["spk"] = tm.spk_p2sh(tm.hash160(red))
            put_tx()
            om = [kv for kv in pm["outputs"][ch_pos] if kv[0][:1] not in (b"\x00", b"\x01")]
            pm["outputs"][ch_pos] = [(b"\x00", red), (b"\x01", ws_c)] + om
        elif kind == "nested_foreign_program_change":
            # the change output pays to p2sh of a GENUINE p2wsh program -- of somebody else's script; that program is attached as the
            # RedeemScript (it does hash to the scriptPubKey), and the wallet's genuine change witness script and derivations are kept
            if ch_pos is None or s.n < 2:
                return None
            ws_c = tm.multisig_script(s.m, s.change["pks"])
            foreign = [tm.multisig_script(1, evil[:1]), b"\x51", tm.multisig_script(s.m, evil[: s.n]) if len(evil) >= s.n else b"\x51"][a % 3]
            red = b"\x00\x20" + tm.sha256(foreign)
            tx["outs"][ch_pos]["spk"] = tm.spk_p2sh(tm.hash160(red))
            put_tx()
            om = [kv for kv in pm["outputs"][ch_pos] if kv[0][:1] not in (b"\x00", b"\x01")]
            pm["outputs"][ch_pos] = [(b"\x00", red), (b"\x01", ws_c)] + om
        elif kind == "lookalike_template_input":
            # an input whose genuine previous transaction pays to a script that only looks like the wallet's p2sh / p2wsh output (hash
            # pushed non-minimally): the attached script does not lock that output
            k_in = a % len(pm["inputs"])
            ftx0 = s.funding.get(tx["ins"][k_in]["txid"])
            if ftx0 is None or s.kind not in ("p2sh", "p2wsh"):
                return None
            ftx = tm.clone(ftx0)
            vout = tx["ins"][k_in]["vout"]
            spk0 = ftx["outs"][vout]["spk"]
            if s.kind == "p2sh":
                ftx["outs"][vout]["spk"] = b"\xa9\x4c\x14" + spk0[2:22] + b"\x87"
            else:
                ftx["outs"][vout]["spk"] = b"\x00\x4c\x20" + spk0[2:]
            fid = tm.txid(ftx)
            s.funding[fid] = ftx  # this transaction exists on chain
            tx["ins"][k_in]["txid"] = fid
            put_tx()
            im = [kv for kv in pm["inputs"][k_in] if kv[0][:1] not in (b"\x00", b"\x01")]
            pm["inputs"][k_in] = [(b"\x00", tm.ser_tx(ftx))] + im
        elif kind == "foreign_script_on_spend_output":
            # a payee output (no derivations) gets an unrelated script record attached: witness-program shaped or multisig, as redeem
            # or witness script
            cands = [k for k, o in enumerate(s.outputs) if not o["change"]]
            if not cands:
                return None
            k_out = cands[a % len(cands)]
            om = pm["outputs"][k_out]
            v = (a // 7) % 4
            rec = [(b"\x00", tm.spk_p2wpkh(bytes([a % 256]) * 20)), (b"\x00", tm.spk_p2wsh(bytes([a % 256]) * 32)), (b"\x00", tm.multisig_script(1, evil[:1])), (b"\x01", tm.multisig_script(1, evil[:1]))][v]
            pm["outputs"][k_out] = [kv for kv in om if kv[0][:1] != rec[0]] + [rec]
        elif kind == "foreign_redeem_on_p2wsh_input":
            # a p2wsh input documented by its witness UTXO, with an unrelated redeem script attached and no witness script
            if s.kind != "p2wsh":
                return None
            k_in = a % len(pm["inputs"])
            im = pm["inputs"][k_in]
            other = tm.multisig_script(s.m, evil[: s.n])
            im2 = [kv for kv in im if kv[0][:1] not in (b"\x04", b"\x05")]
            im2.append((b"\x04", other))
            if a % 2:
                # derivations replaced by ones for the foreign script's keys (claimed under the cosigners' fingerprints)
                im2 = [kv for kv in im2 if kv[0][:1] != b"\x06"]
                for pk, c in zip(evil, s.cos):
                    acc = secp.parse_path(c.account_path)
                    im2.append((b"\x06" + pk, c.fingerprint + b"".join(i.to_bytes(4, "little") for i in acc + [0, 1])))
            pm["inputs"][k_in] = im2
        elif kind == "weak_redeem_both_records_p2sh_input":
            # a legacy p2sh input documented by its previous transaction AND a (truthful) witness UTXO copy of the spent output, as some
            # updaters write for every input, with a redeem script that is not the coin's: a weaker or stronger quorum over the very same
            # keys (derivations stay valid), or a script over foreign keys; optionally the change output is moved to the same quorum
            if s.kind != "p2sh" or s.n < 2:
                return None
            k_in = a % len(pm["inputs"])
            im = pm["inputs"][k_in]
            ftx = s.funding.get(tx["ins"][k_in]["txid"])
            cur = psbtmap.get(im, 0x04)
            ms_ = stdverify.parse_multisig(cur[0][1]) if cur else None
            if ftx is None or ms_ is None:
                return None
            o = ftx["outs"][tx["ins"][k_in]["vout"]]
            m2 = s.m - 1 if s.m > 1 else s.m + 1
            v_ = (a // 7) % 3
            im2 = [kv for kv in im if kv[0][:1] not in (b"\x00", b"\x01", b"\x04")]
            recs = [(b"\x00", tm.ser_tx(ftx)), (b"\x01", o["amount"].to_bytes(8, "little") + tm.compact_size(len(o["spk"])) + o["spk"])]
            if v_ == 2:
                im2 = [kv for kv in im2 if kv[0][:1] != b"\x06"]
                recs.append((b"\x04", tm.multisig_script(s.m, evil[: s.n])))
                for pk, c in zip(evil, s.cos):
                    acc = secp.parse_path(c.account_path)
                    im2.append((b"\x06" + pk, c.fingerprint + b"".join(i.to_bytes(4, "little") for i in acc + [0, 1])))
            else:
                recs.append((b"\x04", tm.multisig_script(m2, ms_[1])))
            pm["inputs"][k_in] = recs + im2
            if v_ == 1 and ch_pos is not None:
                spk2, red2, ws2 = rw.spend_script(s.kind, m2, s.change["pks"])
                tx["outs"][ch_pos]["spk"] = spk2
                put_tx()
                if red2 is not None:
                    psbtmap.set_value(pm["outputs"][ch_pos], b"\x00", red2)
        elif kind == "second_change":
            if ch_pos is None:
                return None
            ix = s.change["index"] + 7 + a % 5
            pks = [secp.sec(c.child_pub(1, ix)) for c in s.cos]
            spk2, red2, ws2 = rw.spend_script(s.kind, s.m, pks)
            tx["outs"].append({"amount": 1000 + a % 1000, "spk": spk2})
            put_tx()
            om = []
            if red2 is not None:
                om.append((b"\x00", red2))
            if ws2 is not None:
                om.append((b"\x01", ws2))
            for pk, c in zip(pks, s.cos):
                acc = secp.parse_path(c.account_path)
                om.append((b"\x02" + pk, c.fingerprint + b"".join(i.to_bytes(4, "little") for i in acc + [1, ix])))
            pm["outputs"].append(om)
        elif kind == "redeem_for_other_input":
            # input's redeem/witness script replaced by another (well-formed) script
            im = pm["inputs"][0]
            _, red2, ws2 = rw.spend_script(s.kind, s.m, evil)
            done = False
            if ws2 is not None:
                done = psbtmap.set_value(im, b"\x05", ws2) or done
            elif red2 is not None:
                done = psbtmap.set_value(im, b"\x04", red2) or done
            if not done:
                return None
        else:
            raise ValueError(kind)
        return psbtmap.serialize(pm)

    # ---- finalisation at the coordinator
    def finalize(self, st):
        tr = self.tr
        s = self.setup
        c = self.nodes[st.get("node", "C")]
        if c.psbt is None or c.durable is None:
            return
        tr.probe("finalize_attempts")
        before = c.durable
        pm = psbtmap.parse(before) if True else None
        # which signers' signatures does the combiner's PSBT contain (by the bytes)?
        observed = self.signers_in(pm)
        per_input = []
        for idx, m in enumerate(pm["inputs"]):
            keys = {pk for pk, _ in psbtmap.get(m, 0x02)}
            scriptkeys = set(s.inputs[idx]["pks"]) if idx < len(s.inputs) else set()
            per_input.append(len(keys & scriptkeys))
        enough = all(k >= s.m for k in per_input) and len(per_input) == len(s.inputs)
        # Q3a: no signature lost or invented relative to what was delivered (bookkeeping of the schedule)
        tr.oracle("Q3_sigset")
        if not self.tainted and observed != c.known:
            fail("C10", "Q3", "signature_set_differs", f"{c.name}'s PSBT contains signatures of signers {sorted(observed)}, the deliveries it processed carried those of {sorted(c.known)}")
        # Q3b: confluence - bytes equal those of the canonical schedule restricted to the same signer set
        canon_raw = None
        if not self.tainted:
            tr.oracle("Q3_confluence")
            canon = PSBT.parse(BytesIO(self.p0), network=self.net)
            for j in sorted(observed):
                pj = PSBT.parse(BytesIO(self.p0), network=self.net)
                self.sign(self.nodes[f"S{j}"], pj)
                canon.combine(PSBT.parse(BytesIO(pj.serialize()), network=self.net))
            canon_raw = canon.serialize()
            if canon_raw != before:
                fail("C10", "Q3", "combined_psbt_depends_on_history", f"{c.name}'s combined PSBT ({len(before)} bytes) differs from the canonical schedule's (star, index order, each once) for the same signer set {sorted(observed)} ({len(canon_raw)} bytes)")
        # Q3c: the coordinator kept the PSBT objects it received and handed to combine(): they still are what was received, and
        # re-using them to rebuild any sub-combination on a fresh copy of the unsigned PSBT gives exactly their own signers
        if not self.tainted and c.inbox and all(cl_ for _, _, cl_ in c.inbox):
            tr.oracle("Q3_operands")
            tr.probe("operand_reuse_audits")
            for k, (obj, raw_k, _) in enumerate(c.inbox):
                try:
                    now = obj.serialize()
                except SimDeadlock:
                    raise
                except Exception as e:
                    now = None
                if now != raw_k:
                    fail("C10", "Q3", "combine_changed_its_argument", f"the PSBT object of message {k} that {c.name} received and passed to combine() no longer serialises to the bytes it was parsed from (signers then {sorted(self.signers_in(psbtmap.parse(raw_k)))}, now {sorted(self.signers_in(psbtmap.parse(now))) if now else None})")
                    break
            else:
                groups = [[k] for k in range(len(c.inbox))][:4] + [[k, k + 1] for k in range(len(c.inbox) - 1)][:3]
                for g in groups:
                    try:
                        fresh = PSBT.parse(BytesIO(self.p0), network=self.net)
                        for k in g:
                            fresh.combine(c.inbox[k][0])
                        got = self.signers_in(psbtmap.parse(fresh.serialize()))
                    except (SimDeadlock, Violation):
                        raise
                    except Exception as e:
                        fail("C10", "Q6", "recombine_same_tx_raised", f"re-combining received PSBT objects {g} into a fresh copy raised {type(e).__name__}: {e}")
                        break
                    want = set()
                    for k in g:
                        want |= self.signers_in(psbtmap.parse(c.inbox[k][1]))
                    if got != want:
                        fail("C10", "Q3", "recombination_signer_set", f"combining received messages {g} (signers {sorted(want)}) into a fresh unsigned PSBT yields signatures of signers {sorted(got)}")
                        break
        # finalise + extract on a re-parsed copy (the combiner's own object stays usable)
        fin = None
        try:
            # usually on a re-parsed copy (the combiner's own object stays usable); 'in_place' finalises the combiner's own object, which
            # may hold records that its serialisation does not carry (e.g. a partial signature by a key outside the script)
            fin = c.psbt if st.get("in_place") else PSBT.parse(BytesIO(before), network=self.net)
            if st.get("in_place"):
                tr.probe("finalize_in_place")
            fin.finalize()
            # a partial signature by a key outside the script is a well-formed record (it verifies under that key) and loads; what the
            # finaliser then emits must still be a PSBT the library can load, so the codec oracle also applies to nodes tainted only by that
            if not c.tainted or c.taint_kinds <= {"byz_foreign_key"}:
                self.check_emitted(fin.serialize(), c.name + "(finalised)")
            ftx = fin.final_tx()
            out = "extracted"
        except (SimDeadlock, Violation):
            raise
        except Exception as e:
            ftx = None
            out = "raised:" + type(e).__name__
        if ftx is not None:
            # the finaliser's PSBT object stays a PSBT after extraction: what it serialises now is still a valid message
            tr.oracle("Q1_after_extract")
            try:
                after = fin.serialize()
            except SimDeadlock:
                raise
            except Exception as e:
                after = None
                fail("C10", "Q1", "serialize_after_extract_raised", f"serialize() after final_tx() raised {type(e).__name__}: {e}")
            if after is not None and not c.tainted:
                self.check_emitted(after, c.name + "(after extraction)")
        if ftx is not None and not c.tainted and st.get("foreign_final_form", True):
            # other finalisers write no (empty) final-scriptSig record for native segwit inputs: the same finalised PSBT in that form
            # loads and extracts the same transaction
            try:
                pmf = psbtmap.parse(after if after is not None else fin.serialize())
                changed_ = False
                for ii_, m_ in enumerate(pmf["inputs"]):
                    m2_ = [kv for kv in m_ if not (kv[0] == b"\x07" and kv[1] == b"")]
                    changed_ = changed_ or len(m2_) != len(m_)
                    pmf["inputs"][ii_] = m2_
                if changed_:
                    tr.oracle("Q4_foreign_final_form")
                    tr.fault("final_scriptsig_record_absent")
                    try:
                        f2 = PSBT.parse(BytesIO(psbtmap.serialize(pmf)), network=self.net)
                        tx2 = f2.final_tx().serialize()
                        if tx2 != ftx.serialize():
                            fail("C10", "Q4", "foreign_final_form_other_tx", "the finalised PSBT without its empty final-scriptSig records extracts another transaction")
                    except (SimDeadlock, Violation):
                        raise
                    except Exception as e:
                        fail("C10", "Q4", "foreign_final_form_not_extractable", f"the finalised PSBT in the form other finalisers emit (no empty final-scriptSig record on native segwit inputs) cannot be loaded/extracted: {type(e).__name__}: {e}")
            except (SimDeadlock, Violation):
                raise
            except Exception:
                pass
        tr.ev(c.name, "finalize", f"{out}|sigs={per_input}|m={s.m}")
        tr.state("fin", s.kind, s.m, s.n, tuple(per_input), out.split(":")[0], self.tainted)
        tr.oracle("Q4")
        if ftx is not None:
            tr.probe("extracted")
            raw_tx = ftx.serialize()
            mtx, _ = tm.parse_tx(raw_tx, strict=False)
            blank = tm.clone(mtx)
            for i_ in blank["ins"]:
                i_["script_sig"] = b""
                i_["witness"] = []
            same = tm.ser_tx(blank, witness=False) == tm.ser_tx(s.tx, witness=False)
            for idx in range(len(mtx["ins"])):
                ok, why = stdverify.verify_input(mtx, idx, s.spent) if same else (False, "not the wallet's transaction")
                if not ok:
                    fail("C10", "Q4", "extracted_tx_not_valid", f"final_tx() returned a transaction whose input {idx} is not authorised per the reference ({why}); signatures per input {per_input}, threshold {s.m}")
                    break
            if not enough:
                fail("C10", "Q4", "extracted_below_threshold", f"final_tx() returned a transaction although inputs carry {per_input} script-key signatures and the threshold is {s.m}")
            if canon_raw is not None:
                try:
                    cf = PSBT.parse(BytesIO(canon_raw), network=self.net)
                    cf.finalize()
                    ctx = cf.final_tx().serialize()
                except SimDeadlock:
                    raise
                except Exception as e:
                    ctx = None
                if ctx is not None and ctx != raw_tx:
                    fail("C10", "Q3", "final_tx_depends_on_history", "the extracted transaction differs from the canonical schedule's for the same signer set")
        else:
            # Tx.verify (used by final_tx) refuses a fee below one satoshi per virtual byte: only demand extraction above a safe bound
            vb_bound = 12 + len(s.inputs) * (60 + 75 * s.m + 35 * s.n) + 45 * len(s.outputs)
            if enough and not self.tainted and s.fee >= vb_bound:
                fail("C10", "Q4", "threshold_met_but_no_tx", f"every input carries at least {s.m} signatures by script keys ({per_input}) yet finalize/final_tx raised: {out}")
        return out


def execute(plan, prop, trace):
    _TR[0] = trace
    plan = dict(plan)
    cer = Ceremony(plan, prop, trace)
    try:
        cer.start()
    except (SimDeadlock, Violation):
        raise
    except Exception as e:
        fail("C10", "Q7", "create_raised", f"creator could not build the PSBT for a {cer.setup.kind} {cer.setup.m}-of-{cer.setup.n} spend: {type(e).__name__}: {e}")
        return {"kind": cer.setup.kind, "create": "raised"}
    outs = []
    for st in plan["steps"]:
        op = st["op"]
        if op == "send":
            cer.deliver(st)
        elif op == "crash":
            cer.crash(st)
        elif op == "offline":
            n = cer.nodes.get(st["node"])
            if n:
                n.online = False
                trace.fault("signer_offline")
        elif op == "finalize":
            outs.append(cer.finalize(st))
        else:
            raise ValueError(op)
    # Q7 bounded liveness: in a fault-free schedule that reached every signer and returned to C, the final transaction is extracted
    s_ = cer.setup
    fee_ok = s_.fee >= 12 + len(s_.inputs) * (60 + 75 * s_.m + 35 * s_.n) + 45 * len(s_.outputs)  # final_tx refuses fees below 1 sat/vbyte
    if plan.get("expect_complete") and fee_ok and "extracted" not in outs:
        fail("C10", "Q7", "fault_free_ceremony_incomplete", f"fault-free {cer.setup.kind} {cer.setup.m}-of-{cer.setup.n} ceremony over schedule '{plan.get('topology')}' did not produce a final transaction: {outs}")
    s = cer.setup
    return {"wallet": f"{s.kind} {s.m}-of-{s.n}", "inputs": len(s.inputs), "outputs": len(s.outputs), "change": s.change is not None, "topology": plan.get("topology"), "creator": plan.get("creator"),
            "steps": [(x.get("src", x.get("node", "")) + ">" + x.get("dst", "") if x["op"] == "send" else x["op"]) + "".join("+" + k for k in ("dup", "stale", "corrupt", "corrupt_sig", "crosstalk", "byz", "tamper", "amount_lie", "strip_utxo") if x.get(k)) for x in plan["steps"]], "finalize": outs}


# ------------------------------------------------------------------------------------------------ generation

TAMPER_KINDS = ["nested_foreign_program_change", "nested_foreign_program_change", "lookalike_witness_program_change", "lookalike_witness_program_change", "lookalike_template_input", "foreign_script_on_spend_output", "foreign_script_on_spend_output", "malformed_multisig_change", "malformed_multisig_change", "foreign_redeem_on_p2wsh_input", "weak_quorum_dust_input", "weak_quorum_dust_input", "swap_change_spk", "flip_change_spk_byte", "foreign_script", "foreign_fingerprint", "wrong_path", "one_cosigner_keys", "one_cosigner_keys_spoofed_fps", "utxo_amount", "other_prev_tx", "changed_quorum", "second_change",
                "redeem_for_other_input", "forge_change", "forge_change", "forge_change", "nonwitness_utxo_foreign_script", "both_utxo_records_disagree", "swap_change_spk_type", "swap_change_spk_type", "p2sh_input_as_witness_utxo", "weak_redeem_both_records_p2sh_input", "weak_redeem_both_records_p2sh_input"]


def gen_spend(ch, tier, kinds, max_n):
    kind = ch.choice(kinds)
    if kind in ("p2pkh", "p2wpkh", "p2sh_p2wpkh"):
        n, m = 1, 1
    else:
        n = ch.randrange(1, max_n + 1)
        m = ch.randrange(1, n + 1)
    n_in = ch.choice([1, 1, 1, 2, 2, 3]) if tier == "thorough" else ch.choice([1, 1, 2])
    inputs = [{"branch": 0, "index": ch.randrange(0, 50), "amount": ch.choice([50000, 100000, 10**7, 2 * 10**8]) + ch.randrange(1000), "fund_seed": ch.randrange(1 << 30), "vout": ch.randrange(0, 3)} for _ in range(n_in)]
    total = sum(i["amount"] for i in inputs)
    fee = ch.choice([1000, 2500, 10000])
    n_pay = ch.choice([1, 1, 2, 2, 3])
    if not ch.chance(0.15):
        # final_tx refuses a fee below one satoshi per virtual byte: most plans pay enough for their size, some deliberately do not
        fee = max(fee, 12 + n_in * (60 + 75 * m + 35 * n) + 45 * (n_pay + 1))
    has_change = ch.chance(0.6)
    rest = total - fee
    outs = []
    for k in range(n_pay):
        amt = rest // (n_pay + (1 if has_change else 0)) - ch.randrange(0, 100)
        outs.append({"amount": amt, "spk": ch.choice([tm.spk_p2wpkh(ch.bytes(20)), tm.spk_p2pkh(ch.bytes(20)), tm.spk_p2sh(ch.bytes(20)), tm.spk_p2wsh(ch.bytes(32))]).hex()})
    if len(outs) >= 2 and ch.chance(0.35):
        outs[1]["spk"] = outs[0]["spk"]  # the same payee twice (batch payment to one address)
    paid = sum(o["amount"] for o in outs)
    plan = {"wallet": {"kind": kind, "m": m, "cosigners": ch.sample(range(POOL), n)}, "inputs": inputs, "outputs": outs, "version": ch.choice([1, 2]), "locktime": ch.choice([0, 0, 800000]),
            "sequence": ch.choice([0xFFFFFFFF, 0xFFFFFFFE, 0xFFFFFFFD])}
    if has_change:
        plan["change"] = {"index": ch.randrange(0, 50), "amount": rest - paid, "pos": ch.randrange(0, 3)}
    else:
        outs[-1]["amount"] += rest - paid
    return plan


def schedule(ch, n, topology):
    """base delivery schedule (list of send steps) that reaches every signer and returns to C"""
    order = ch.sample(range(n), n)
    steps = []
    if topology == "star":
        for j in order:
            steps.append({"op": "send", "src": "C", "dst": f"S{j}"})
        back = ch.sample(range(n), n)
        for j in back:
            steps.append({"op": "send", "src": f"S{j}", "dst": "C"})
    elif topology == "chain":
        prev = "C"
        for j in order:
            steps.append({"op": "send", "src": prev, "dst": f"S{j}"})
            prev = f"S{j}"
        steps.append({"op": "send", "src": prev, "dst": "C"})
    else:  # gossip: C seeds everyone, signers forward to random peers, then everyone reports to C
        for j in order:
            steps.append({"op": "send", "src": "C", "dst": f"S{j}"})
        for _ in range(ch.randrange(0, n + 1)):
            a, b = ch.randrange(n), ch.randrange(n)
            if a != b:
                steps.append({"op": "send", "src": f"S{a}", "dst": f"S{b}", "no_sign": False})
        for j in ch.sample(range(n), n):
            steps.append({"op": "send", "src": f"S{j}", "dst": "C"})
    return steps


def generate(ch, tier, prop):
    max_n = 3 if tier == "quick" else 4
    if prop == "C11":
        plan = gen_spend(ch, tier, ["p2sh", "p2sh", "p2wsh"], max_n)
        if plan["wallet"]["kind"] in ("p2sh", "p2wsh") and len(plan["wallet"]["cosigners"]) == 1 and ch.chance(0.7):
            plan["wallet"]["cosigners"] = ch.sample(range(POOL), 2)
            plan["wallet"]["m"] = ch.randrange(1, 3)
        if not plan.get("change") and ch.chance(0.7):
            amt = plan["outputs"][-1]["amount"] // 3
            plan["outputs"][-1]["amount"] -= amt
            plan["change"] = {"index": ch.randrange(0, 50), "amount": amt, "pos": ch.randrange(0, 3)}
        plan["creator"] = {"segwit_flag": False, "xpubs": ch.chance(0.3), "unknown": ch.chance(0.2), "helper": ch.chance(0.3)}
        plan["sign_method"] = "keys"
        plan["topology"] = "review"
        plan["review_update"] = ch.chance(0.3)
        st = {"op": "send", "src": "C", "dst": "S0"}
        r = ch.random()
        if r < 0.2:
            pass  # honest message
        elif r < 0.8:
            st["tamper"] = {"kind": ch.choice(TAMPER_KINDS), "a": ch.randrange(0, 10000)}
            plan["tamper"] = st["tamper"]
        else:
            st["corrupt"] = [(ch.randrange(0, 100000), ch.randrange(8)) for _ in range(ch.choice([1, 1, 2]))]
        plan["steps"] = [st]
        return plan
    kinds = ["p2pkh", "p2wpkh", "p2sh_p2wpkh", "p2sh", "p2sh", "p2wsh", "p2wsh", "p2sh_p2wsh", "p2sh_p2wsh"]
    plan = gen_spend(ch, tier, kinds, max_n)
    n = len(plan["wallet"]["cosigners"])
    plan["creator"] = {"segwit_flag": ch.chance(0.3), "xpubs": ch.chance(0.25), "unknown": ch.chance(0.3), "helper": ch.chance(0.2), "both_utxo": ch.chance(0.3), "nonwitness_only": ch.chance(0.15)}
    plan["sign_method"] = "hd" if ch.chance(0.25) else "keys"
    if ch.chance(0.3):
        plan["wallet"]["account_path"] = ch.choice(ACCOUNT_PATHS)
    if ch.chance(0.3):
        plan["net_arg"] = None
    plan["encoding"] = ch.choice(["b64", "b64", "raw"])
    topo = ch.choice(["star", "chain", "gossip"]) if n > 1 else "star"
    plan["topology"] = topo
    steps = schedule(ch, n, topo)
    fault_free = ch.chance(0.3)
    plan["expect_complete"] = fault_free
    if not fault_free:
        kinds_f = [k for k in ["dup", "stale", "drop", "corrupt", "crosstalk", "crash", "byz", "offline", "early_finalize"] if ch.chance(0.4)]
        p = ch.choice([0.15, 0.3])
        out = []
        for st in steps:
            if "drop" in kinds_f and ch.chance(p):
                continue
            st = dict(st)
            if "dup" in kinds_f and ch.chance(p):
                st["dup"] = True
            if "stale" in kinds_f and ch.chance(p):
                st["stale"] = ch.randrange(1, 3)
            if "corrupt" in kinds_f and ch.chance(p):
                st["corrupt"] = [(ch.randrange(0, 100000), ch.randrange(8))]
            if "corrupt" in kinds_f and st["src"] != "C" or ("corrupt" in kinds_f and ch.chance(0.3)):
                if ch.chance(p * 1.5):
                    st["corrupt_sig"] = {"which": ch.randrange(0, 8), "bit": ch.randrange(0, 600), "in_key": ch.chance(0.2)}
                    if ch.chance(0.25):
                        st["corrupt_sig"]["retag"] = ch.randrange(8)
            if "corrupt" in kinds_f and st["src"] != "C" and ch.chance(p * 0.7):
                st["strip_utxo"] = True
            if "corrupt" in kinds_f and st["src"] != "C" and ch.chance(p):
                st["amount_lie"] = ch.choice([1, -1, 1000, -1000, 2**32, ch.randrange(1, 10**6)])
            if "crosstalk" in kinds_f and ch.chance(p * 0.5):
                st["crosstalk"] = True
            if "byz" in kinds_f and st["src"].startswith("S") and ch.chance(p):
                st["byz"] = ch.choice(["foreign_key", "wrong_tx", "declared_type"])
            out.append(st)
            if "crash" in kinds_f and ch.chance(p):
                out.append({"op": "crash", "node": ch.choice(["C", st["dst"]])})
            if "early_finalize" in kinds_f and ch.chance(p):
                out.append({"op": "finalize"})
        if "offline" in kinds_f and n > 1:
            out.insert(0, {"op": "offline", "node": f"S{ch.randrange(n)}"})
        steps = out
    steps.append({"op": "finalize", "in_place": True} if ch.chance(0.3) else {"op": "finalize"})
    plan["steps"] = steps
    return plan


def enumerate_plans(tier, prop, seed):
    r = plan_rng(seed, "enum-psbt")

    def base(kind, m, n, n_in=1, change=True):
        inputs = [{"branch": 0, "index": r.randrange(50), "amount": 200000 + r.randrange(1000), "fund_seed": r.randrange(1 << 30), "vout": r.randrange(2)} for _ in range(n_in)]
        total = sum(i["amount"] for i in inputs)
        plan = {"wallet": {"kind": kind, "m": m, "cosigners": r.sample(range(POOL), n)}, "inputs": inputs, "outputs": [{"amount": total // 2, "spk": tm.spk_p2wpkh(bytes(range(20))).hex()}], "version": 2, "locktime": 0, "sequence": 0xFFFFFFFE}
        if change:
            plan["change"] = {"index": r.randrange(50), "amount": total - total // 2 - 2000, "pos": r.randrange(2)}
        else:
            plan["outputs"][0]["amount"] = total - 2000
        return plan

    if prop == "C11":
        # honest batch payments with repeated payee addresses
        for kind in ("p2sh", "p2wsh"):
            for dup in (2, 3):
                plan = base(kind, 1, 2)
                amt = plan["outputs"][0]["amount"]
                plan["outputs"] = [{"amount": amt // dup - k, "spk": plan["outputs"][0]["spk"]} for k in range(dup)]
                plan["change"]["amount"] += amt - sum(o["amount"] for o in plan["outputs"])
                plan["creator"] = {"segwit_flag": False, "xpubs": False, "unknown": False, "helper": False}
                plan["sign_method"] = "keys"
                plan["topology"] = "review"
                plan["steps"] = [{"op": "send", "src": "C", "dst": "S0"}]
                plan["enum"] = "batch-same-payee"
                yield plan
        # forged change outputs (generic forger), many seeds
        for kind in ("p2sh", "p2wsh"):
            for a in range(12 if tier == "quick" else 150):
                plan = base(kind, r.choice([1, 2]), 2 if a % 3 else 3)
                plan["creator"] = {"segwit_flag": False, "xpubs": False, "unknown": False, "helper": False}
                plan["sign_method"] = "keys"
                plan["topology"] = "review"
                st = {"op": "send", "src": "C", "dst": "S0", "tamper": {"kind": "forge_change", "a": a + 1000 * seed}}
                plan["tamper"] = st["tamper"]
                plan["steps"] = [st]
                plan["enum"] = "forged-change"
                yield plan
        # the catalogue against both wallet types
        for kind in ("p2sh", "p2wsh"):
            for tk in [None] + TAMPER_KINDS:
                for rep in range((1 if tier == "quick" else 4) * (3 if tk == "weak_quorum_dust_input" else 5 if tk == "malformed_multisig_change" else 3 if tk in ("lookalike_witness_program_change", "nested_foreign_program_change") else 4 if tk == "foreign_script_on_spend_output" else 2 if tk == "foreign_redeem_on_p2wsh_input" else 3 if tk == "weak_redeem_both_records_p2sh_input" else 1)):
                    plan = base(kind, r.choice([1, 2]) if tk != "weak_quorum_dust_input" else 2, 2 if tier == "quick" else r.choice([2, 3]))
                    plan["creator"] = {"segwit_flag": False, "xpubs": rep % 2 == 1, "unknown": False, "helper": kind == "p2sh" and rep % 2 == 0}
                    plan["sign_method"] = "keys"
                    plan["topology"] = "review"
                    st = {"op": "send", "src": "C", "dst": "S0"}
                    if tk:
                        st["tamper"] = {"kind": tk, "a": (5 * r.randrange(2000) + rep % 5) if tk == "malformed_multisig_change" else (2 * r.randrange(5000) + rep % 2) if tk == "foreign_redeem_on_p2wsh_input" else (7 * (4 * r.randrange(300) + rep % 4) + r.randrange(7)) if tk == "foreign_script_on_spend_output" else (7 * (3 * r.randrange(300) + rep % 3) + r.randrange(7)) if tk == "weak_redeem_both_records_p2sh_input" else r.randrange(10000) if tk != "weak_quorum_dust_input" else 3 * r.randrange(3000) + rep % 3}
                        plan["tamper"] = st["tamper"]
                    plan["steps"] = [st]
                    plan["enum"] = "catalogue"
                    yield plan
        # large quorums (two-digit thresholds): honest, and the change quorum lowered to 1, m-1, or raised to m+1
        for kind, m, n in (("p2wsh", 10, 11), ("p2wsh", 11, 12), ("p2sh", 10, 11), ("p2wsh", 15, 15) if tier == "thorough" else ("p2wsh", 12, 12)):
            for m2 in (None, 1, m - 1, m + 1):
                inputs = [{"branch": 0, "index": r.randrange(50), "amount": 300000, "fund_seed": r.randrange(1 << 30), "vout": 0}]
                plan = {"wallet": {"kind": kind, "m": m, "cosigners": r.sample(range(BIGPOOL), n)}, "inputs": inputs, "outputs": [{"amount": 100000, "spk": tm.spk_p2wpkh(bytes(range(20))).hex()}], "version": 2, "locktime": 0,
                        "sequence": 0xFFFFFFFE, "change": {"index": r.randrange(50), "amount": 197000, "pos": r.randrange(2)}}
                plan["creator"] = {"segwit_flag": False, "xpubs": False, "unknown": False, "helper": False}
                plan["sign_method"] = "keys"
                plan["topology"] = "review"
                st = {"op": "send", "src": "C", "dst": "S0"}
                if m2 is not None:
                    st["tamper"] = {"kind": "changed_quorum", "a": 0, "m2": m2}
                    plan["tamper"] = st["tamper"]
                plan["steps"] = [st]
                plan["enum"] = "large-quorum"
                yield plan
        # the signer refreshes the PSBT from its own records before reading the summary: UTXO-related tampering and honest messages
        for kind in ("p2sh", "p2wsh"):
            for tk in [None, "utxo_amount", "both_utxo_records_disagree", "p2sh_input_as_witness_utxo", "other_prev_tx", "nonwitness_utxo_foreign_script"]:
                for rep in range(2 if tier == "quick" else 6):
                    plan = base(kind, r.choice([1, 2]), 2)
                    plan["creator"] = {"segwit_flag": False, "xpubs": False, "unknown": False, "helper": False}
                    plan["sign_method"] = "keys"
                    plan["topology"] = "review"
                    plan["review_update"] = True
                    st = {"op": "send", "src": "C", "dst": "S0"}
                    if tk:
                        st["tamper"] = {"kind": tk, "a": r.randrange(10000)}
                        plan["tamper"] = st["tamper"]
                    plan["steps"] = [st]
                    plan["enum"] = "update-then-review"
                    yield plan
        return
    # C10: every wallet type, honest star ceremony with all signers, both creator flags (quick: a subset of (m,n))
    combos = [("p2pkh", 1, 1), ("p2wpkh", 1, 1), ("p2sh_p2wpkh", 1, 1), ("p2sh", 1, 2), ("p2wsh", 2, 2), ("p2sh_p2wsh", 2, 3)]
    if tier == "thorough":
        combos += [(k, m, n) for k in ("p2sh", "p2wsh", "p2sh_p2wsh") for n in range(1, 5) for m in range(1, n + 1)]
    for kind, m, n in combos:
        for flag in (False, True):
            plan = base(kind, m, n, n_in=1 if tier == "quick" else r.choice([1, 2]))
            plan["creator"] = {"segwit_flag": flag, "xpubs": False, "unknown": flag, "helper": False}
            plan["sign_method"] = "keys"
            plan["encoding"] = "b64"
            plan["topology"] = "star"
            steps = [{"op": "send", "src": "C", "dst": f"S{j}"} for j in range(n)] + [{"op": "send", "src": f"S{j}", "dst": "C"} for j in reversed(range(n))] + [{"op": "finalize"}]
            plan["steps"] = steps
            plan["expect_complete"] = True
            plan["enum"] = "types"
            yield plan
    # a chain ceremony (each signer signs on top of the previous one's PSBT) in which the hop into the last signer / the coordinator
    # carries a message with k >= 2 partial signatures, one of which is bit-flipped: every slot, value and key
    for kind in ("p2sh", "p2wsh"):
        for which in range(3):
            for in_key in (False, True):
                for hop in (2, 3):
                    plan = base(kind, 3, 3)
                    plan["creator"] = {"segwit_flag": False, "xpubs": False, "unknown": False, "helper": False}
                    plan["sign_method"] = "keys"
                    plan["encoding"] = "raw"
                    plan["topology"] = "chain"
                    steps = [{"op": "send", "src": "C", "dst": "S0"}, {"op": "send", "src": "S0", "dst": "S1"}, {"op": "send", "src": "S1", "dst": "S2"}, {"op": "send", "src": "S2", "dst": "C"}]
                    steps[hop]["corrupt_sig"] = {"which": which, "bit": r.randrange(8, 500), "in_key": in_key}
                    plan["steps"] = steps + [{"op": "finalize"}]
                    plan["enum"] = "corrupt-sig-slots"
                    yield plan
    # single-key wallets whose updater builds its key lookup with the library's BIP44 helper (gap limits = the indices in use), spending a
    # received coin and an earlier change coin, signed through the HD signer (which needs the derivations the updater attached)
    for kind in ("p2pkh", "p2wpkh", "p2sh_p2wpkh"):
        for (e_ix, i_ix) in ((0, 3), (3, 0), (2, 2), (1, 4)):
            plan = base(kind, 1, 1, n_in=2)
            plan["inputs"][0].update(branch=0, index=e_ix)
            plan["inputs"][1].update(branch=1, index=i_ix)
            plan["change"]["index"] = max(i_ix - 1, 0)
            plan["creator"] = {"segwit_flag": False, "xpubs": False, "unknown": False, "helper": False, "lookup_helper": True}
            plan["sign_method"] = "hd"
            plan["encoding"] = "raw"
            plan["topology"] = "star"
            plan["steps"] = [{"op": "send", "src": "C", "dst": "S0"}, {"op": "send", "src": "S0", "dst": "C"}, {"op": "finalize"}]
            plan["expect_complete"] = True
            plan["enum"] = "bip44-lookup-helper"
            yield plan
    # a co-signer whose reply declares another sighash type than its signature names: every wallet kind
    for kind, m, n in (("p2pkh", 1, 1), ("p2wpkh", 1, 1), ("p2sh_p2wpkh", 1, 1), ("p2sh", 2, 2), ("p2wsh", 2, 2), ("p2sh_p2wsh", 2, 2)):
        plan = base(kind, m, n)
        plan["creator"] = {"segwit_flag": False, "xpubs": False, "unknown": False, "helper": False}
        plan["sign_method"] = "keys"
        plan["encoding"] = "raw"
        plan["topology"] = "star"
        plan["steps"] = [{"op": "send", "src": "C", "dst": f"S{j}"} for j in range(n)] + [{"op": "send", "src": "S0", "dst": "C", "byz": "declared_type"}] + [{"op": "send", "src": f"S{j}", "dst": "C"} for j in range(1, n)] + [{"op": "finalize"}]
        plan["enum"] = "declared-sighash-type"
        yield plan
    # replies without UTXO records whose partial signature was corrupted: every wallet kind
    for kind, m, n in (("p2pkh", 1, 1), ("p2wpkh", 1, 1), ("p2sh_p2wpkh", 1, 1), ("p2sh", 2, 2), ("p2wsh", 2, 2), ("p2sh_p2wsh", 2, 2)):
        plan = base(kind, m, n)
        plan["creator"] = {"segwit_flag": False, "xpubs": False, "unknown": False, "helper": False}
        plan["sign_method"] = "keys"
        plan["encoding"] = "raw"
        plan["topology"] = "star"
        plan["steps"] = [{"op": "send", "src": "C", "dst": f"S{j}"} for j in range(n)] + [{"op": "send", "src": "S0", "dst": "C", "strip_utxo": True, "corrupt_sig": {"which": 0, "bit": 77, "in_key": False}}] + [{"op": "send", "src": f"S{j}", "dst": "C"} for j in range(n)] + [{"op": "finalize"}]
        plan["enum"] = "stripped-bogus-signature"
        yield plan
    # re-tagged partial signatures (hash-type byte changed in flight): every wallet kind x every replacement type
    for kind, m, n in (("p2pkh", 1, 1), ("p2wpkh", 1, 1), ("p2sh_p2wpkh", 1, 1), ("p2sh", 1, 2), ("p2wsh", 1, 2), ("p2sh_p2wsh", 1, 2)):
        for rt in (range(8) if tier == "thorough" else (0, 3, 5)):
            plan = base(kind, m, n)
            plan["creator"] = {"segwit_flag": False, "xpubs": False, "unknown": False, "helper": False}
            plan["sign_method"] = "keys"
            plan["encoding"] = "raw"
            plan["topology"] = "star"
            plan["steps"] = [{"op": "send", "src": "C", "dst": "S0"}, {"op": "send", "src": "S0", "dst": "C", "corrupt_sig": {"which": 0, "bit": 0, "in_key": False, "retag": rt}}, {"op": "finalize"}]
            plan["enum"] = "retag-partial-sig"
            yield plan
    # cosigner account keys at other derivation paths (depth 0..4), with and without global xpub records
    for ap in ACCOUNT_PATHS:
        for xp in (True, False):
            plan = base("p2sh" if xp else "p2wsh", 1, 2)
            plan["wallet"]["account_path"] = ap
            plan["net_arg"] = None
            plan["creator"] = {"segwit_flag": False, "xpubs": xp, "unknown": False, "helper": False}
            plan["sign_method"] = "hd" if ap != "m" and not xp else "keys"
            plan["encoding"] = "raw"
            plan["topology"] = "star"
            plan["steps"] = [{"op": "send", "src": "C", "dst": "S0"}, {"op": "send", "src": "S0", "dst": "C"}, {"op": "finalize"}]
            plan["expect_complete"] = True
            plan["enum"] = "account-paths"
            yield plan
    # creators that document segwit inputs by the previous transaction only: fault-free star ceremony
    for kind, m, n in (("p2wpkh", 1, 1), ("p2wsh", 2, 3), ("p2wsh", 1, 2), ("p2sh_p2wpkh", 1, 1), ("p2sh_p2wsh", 2, 2)):
        plan = base(kind, m, n)
        plan["creator"] = {"segwit_flag": False, "xpubs": False, "unknown": False, "helper": False, "nonwitness_only": True}
        plan["sign_method"] = "keys"
        plan["encoding"] = "raw"
        plan["topology"] = "star"
        plan["steps"] = [{"op": "send", "src": "C", "dst": f"S{j}"} for j in range(m)] + [{"op": "send", "src": f"S{j}", "dst": "C"} for j in range(m)] + [{"op": "finalize"}]
        plan["expect_complete"] = True
        plan["enum"] = "nonwitness-utxo-only"
        yield plan
    # a Byzantine signer's foreign-key signature next to too few genuine ones, then finalisation: every multisig kind
    for kind in ("p2sh", "p2wsh", "p2sh_p2wsh"):
        for m, n in ((2, 3), (2, 2)):
            plan = base(kind, m, n)
            plan["creator"] = {"segwit_flag": False, "xpubs": False, "unknown": False, "helper": False}
            plan["sign_method"] = "keys"
            plan["encoding"] = "raw"
            plan["topology"] = "star"
            plan["steps"] = [{"op": "send", "src": "C", "dst": "S0"}, {"op": "send", "src": "C", "dst": "S1", "no_sign": True}, {"op": "send", "src": "S0", "dst": "C"}, {"op": "send", "src": "S1", "dst": "C", "byz": "foreign_key"}, {"op": "finalize", "in_place": True}]
            plan["enum"] = "foreign-key-then-finalize"
            yield plan
    # creators that attach both UTXO records to segwit inputs: fault-free star ceremony for every segwit wallet kind
    for kind, m, n in (("p2wpkh", 1, 1), ("p2sh_p2wpkh", 1, 1), ("p2wsh", 2, 3), ("p2sh_p2wsh", 2, 2)):
        plan = base(kind, m, n)
        plan["creator"] = {"segwit_flag": False, "xpubs": False, "unknown": False, "helper": False, "both_utxo": True}
        plan["sign_method"] = "keys"
        plan["encoding"] = "raw"
        plan["topology"] = "star"
        plan["steps"] = [{"op": "send", "src": "C", "dst": f"S{j}"} for j in range(m)] + [{"op": "send", "src": f"S{j}", "dst": "C"} for j in range(m)] + [{"op": "finalize"}]
        plan["expect_complete"] = True
        plan["enum"] = "both-utxo-records"
        yield plan
    # witness-UTXO amount lie on a signature-carrying reply, every segwit wallet kind, first and second reply
    for kind, m, n in (("p2wpkh", 1, 1), ("p2sh_p2wpkh", 1, 1), ("p2wsh", 2, 2), ("p2sh_p2wsh", 2, 2)):
        for which in range(n):
            for delta in (1, -1000):
                plan = base(kind, m, n)
                plan["creator"] = {"segwit_flag": False, "xpubs": False, "unknown": False, "helper": False}
                plan["sign_method"] = "keys"
                plan["encoding"] = "raw"
                plan["topology"] = "star"
                steps = [{"op": "send", "src": "C", "dst": f"S{j}"} for j in range(n)] + [{"op": "send", "src": f"S{j}", "dst": "C"} for j in range(n)]
                steps[n + which]["amount_lie"] = delta
                plan["steps"] = steps + [{"op": "finalize"}]
                plan["enum"] = "amount-lie"
                yield plan
    # all signer subsets x all arrival orders for a 2-of-3 (thorough: also 2-of-4), star topology
    from itertools import permutations

    for kind, m, n in [("p2wsh", 2, 3)] + ([("p2sh", 2, 4)] if tier == "thorough" else []):
        plan0 = base(kind, m, n)
        for size in range(0, n + 1):
            for sub in __import__("itertools").combinations(range(n), size):
                perms = list(permutations(sub))
                if tier == "quick":
                    perms = perms[:1] + perms[-1:] if len(perms) > 1 else perms
                for perm in perms:
                    plan = dict(plan0)
                    plan["creator"] = {"segwit_flag": False, "xpubs": False, "unknown": False, "helper": False}
                    plan["sign_method"] = "keys"
                    plan["encoding"] = "raw"
                    plan["topology"] = "star"
                    plan["steps"] = [{"op": "send", "src": "C", "dst": f"S{j}"} for j in sub] + [{"op": "send", "src": f"S{j}", "dst": "C"} for j in perm] + [{"op": "finalize"}]
                    plan["expect_complete"] = size >= m
                    plan["enum"] = "subsets"
                    yield plan


def shrink(plan):
    for i, st in enumerate(plan["steps"]):
        for key in ("dup", "stale", "corrupt", "corrupt_sig", "crosstalk", "byz", "amount_lie", "strip_utxo"):
            if st.get(key):
                p = dict(plan, steps=[dict(x) for x in plan["steps"]])
                del p["steps"][i][key]
                yield p
    cr = plan.get("creator", {})
    for key in ("segwit_flag", "xpubs", "unknown", "helper", "both_utxo", "nonwitness_only"):
        if cr.get(key):
            yield dict(plan, creator=dict(cr, **{key: False}))
    if len(plan["inputs"]) > 1:
        extra = plan["inputs"][-1]["amount"]
        p = dict(plan, inputs=plan["inputs"][:-1])
        if p.get("change") and p["change"]["amount"] > extra:
            pass
        # amounts must stay consistent: only drop an input when an output can absorb it
        outs = [dict(o) for o in plan["outputs"]]
        if outs and outs[-1]["amount"] > extra + 1:
            outs[-1]["amount"] -= extra
            yield dict(p, outputs=outs)
    if plan.get("sign_method") == "hd":
        yield dict(plan, sign_method="keys")
    if plan.get("encoding") == "b64":
        yield dict(plan, encoding="raw")
