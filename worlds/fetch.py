"""W-FETCH: the real TxFetcher against faulty and lying block explorers, with a process-wide cache and a
cache file (C04).

Real code: TxFetcher.fetch/load_cache/dump_cache, Tx.parse/serialize/id/hash, the lazy paths TxIn.value()/
script_pubkey()/Tx.fee()/get_input_tx_lookup().
Stub: the explorers (one per network) over a generated chain database of ref.txmodel transactions, urlopen, the
file system behind buidl.tx's open().
"""
import io
import contextlib
import json
from io import BytesIO
from urllib.error import HTTPError, URLError

import buidl.tx as btx
from buidl.tx import Tx, TxFetcher, TxIn, TxOut
from buidl.script import Script

from ref import txmodel as tm
from sim.core import EventQueue, SimDeadlock, plan_rng

WORLD = "fetch"
TIME_UNIT = "virtual seconds (server latency advances the discrete-event clock)"
ALLOW_EMPTY_STEPS = False

COMPONENTS = {
    "real": ["buidl.tx.TxFetcher.fetch/load_cache/dump_cache (class-level cache)", "buidl.tx.Tx.parse/parse_hex/serialize/id/hash", "TxIn.value()/script_pubkey()/fetch_tx, Tx.fee(), Tx.get_input_tx_lookup()",
             "buidl.script.Script.parse/raw_serialize, buidl.witness.Witness codec (through the served transactions)", "Tx/TxIn/TxOut/Script/Witness constructors and public lists (API-built transactions, in-place edits), Tx.verify_input/fee/sig_hash/clone as read-only uses"],
    "stub": ["block explorers for mainnet/testnet/signet (generated chain database, per-response behaviour catalogue)", "urllib urlopen (buidl.tx.urlopen)", "file system (buidl.tx.open): torn writes, disk full part-way through a write, a stored character flipped between dump and load"],
}
LEVEL = {"C04": "exploration"}
RULE = {
    "C04": "plans drawn from Chooser(VERIF_SEED/fetch/C04/index): a chain database of 2-8 transactions (legacy/segwit, 1-5 (thorough: up to 300) inputs/outputs, pushes of every length 0..520 with emphasis on "
    "75/76/255/256/520, witness items up to 70000 bytes, amounts up to 2^64-1, optional non-canonical push encodings) and up to 30 operations: fetch (fresh or cached, on any network), lazy value/script/fee "
    "look-ups, dump_cache, restart, load_cache; each response may be wrong_tx, truncated at k, garbage/not hex/empty, trailing bytes, whitespace/upper case, witness-stripped, witness-malleated, non-canonically "
    "re-encoded, an HTTP error, a timeout or slow; dump_cache may be torn at k. Non-trivial = at least one fetch reached the server and at least one fault fired or a cache/restart step ran; distinct = distinct event-log digest.",
}
ASSUMPTIONS = {
    "C04": [
        "ref/txmodel.py serialiser/parser and txid are correct (self-tested on BIP143's example transaction)",
        "the cache file is trusted by design (no bit-rot injection into it); torn writes are injected",
        "the byte-exact round-trip clauses (every push length / varint width / witness stack) are only sampled through the served transactions",
    ]
}
TIERS = {
    "C04": {
        "quick": {"runs": 8000, "chunk": 100, "per_run_timeout": 120, "wall_cap": 300},
        "thorough": {"runs": 200000, "chunk": 200, "per_run_timeout": 300, "wall_cap": 2400},
    }
}

_TR = [None]


def fail(oracle, detail, msg):
    _TR[0].fail("C04", oracle, detail, msg)


def nontrivial(res):
    p = res["probes"]
    return (p.get("server_hits", 0) > 0 and (sum(res["faults"].values()) > 0 or p.get("restarts", 0) > 0)) or p.get("histories", 0) > 0


# ------------------------------------------------------------------------------------------------
# chain database

PUSH_LENS = [0, 1, 2, 20, 32, 33, 65, 71, 72, 73, 74, 75, 76, 77, 100, 254, 255, 256, 257, 300, 519, 520]
OPCODES = [0x51, 0x52, 0x60, 0x76, 0xA9, 0x87, 0x88, 0xAC, 0xAE, 0x6A, 0x63, 0x68, 0x75, 0xB1, 0xB2, 0x00, 0x4F]


def gen_script(r, npush, canonical=True, maxlen=520):
    """-> (script bytes, is_canonical)"""
    out = b""
    canon = True
    for _ in range(npush):
        if r.random() < 0.3:
            out += bytes([r.choice(OPCODES)])
            continue
        n = r.choice(PUSH_LENS) if r.random() < 0.7 else r.randrange(0, maxlen + 1)
        n = min(n, maxlen)
        data = r.getrandbits(8 * n).to_bytes(n, "big") if n else b""
        if n == 0:
            out += b"\x00"
            continue
        if not canonical and r.random() < 0.5:
            canon = False
            form = r.choice(["pd1", "pd2", "pd4"])
            if form == "pd1" and n <= 255:
                out += b"\x4c" + bytes([n]) + data
            elif form == "pd2" or (form == "pd1" and n > 255):
                out += b"\x4d" + n.to_bytes(2, "little") + data
                if n > 255:
                    canon = canon  # PUSHDATA2 is canonical for n > 255
            else:
                out += b"\x4e" + n.to_bytes(4, "little") + data
        else:
            out += tm.push(data)
    # recompute canonical flag strictly: re-encoding every push minimally must give the same bytes
    return out, canon


def is_canonical_script(script):
    """True iff the script is a sequence of opcodes and *minimally encoded* (direct / PUSHDATA1 / PUSHDATA2) pushes, fully consumed."""
    p = 0
    out = b""
    while p < len(script):
        op = script[p]
        if 1 <= op <= 75:
            d = script[p + 1 : p + 1 + op]
            if len(d) != op:
                return False
            out += tm.push(d)
            p += 1 + op
        elif op == 0x4C:
            if p + 2 > len(script):
                return False
            n = script[p + 1]
            d = script[p + 2 : p + 2 + n]
            if len(d) != n:
                return False
            out += tm.push(d) if n else b"\x4c\x00"
            p += 2 + n
        elif op == 0x4D:
            if p + 3 > len(script):
                return False
            n = int.from_bytes(script[p + 1 : p + 3], "little")
            d = script[p + 3 : p + 3 + n]
            if len(d) != n:
                return False
            out += tm.push(d) if n else b"\x4d\x00\x00"
            p += 3 + n
        elif op == 0x4E:
            return False
        else:
            out += bytes([op])
            p += 1
    return out == script


def gen_db(cfg, tier):
    r = plan_rng(cfg["seed"], "db")
    txs = []
    for k in range(cfg["n"]):
        segwit = r.random() < 0.5
        big = cfg.get("big") and k == 0
        n_in = r.randrange(1, 6) if not big else r.choice([252, 253, 254, 300])
        n_out = r.randrange(0, 6) if not big else r.choice([1, 252, 253, 300])
        noncanon = cfg.get("noncanonical") and r.random() < 0.4
        ins = []
        for _ in range(n_in):
            ss, _c = gen_script(r, r.randrange(0, 4) if not big else r.randrange(0, 2), canonical=not noncanon)
            wit = []
            if segwit and r.random() < 0.8:
                for _w in range(r.randrange(0, 5)):
                    m = r.random()
                    ln = r.choice([0, 1, 32, 33, 64, 65, 71, 72, 252, 253, 520]) if m < 0.8 else (r.randrange(0, 3000) if m < 0.97 or not cfg.get("huge") else r.choice([65535, 65536, 70000]))
                    wit.append(r.getrandbits(8 * ln).to_bytes(ln, "big") if ln else b"")
            ins.append({"txid": r.getrandbits(256).to_bytes(32, "big"), "vout": r.choice([0, 1, 0xFFFFFFFF, r.randrange(0, 1000)]), "script_sig": ss,
                        "sequence": r.choice([0xFFFFFFFF, 0xFFFFFFFE, 0, r.getrandbits(32)]), "witness": wit})
        if segwit and not any(i["witness"] for i in ins):
            ins[0]["witness"] = [b"\x01"]
        outs = []
        for _ in range(n_out):
            h = r.getrandbits(256).to_bytes(32, "big")
            m = r.random()
            if m < 0.5:
                spk = r.choice([tm.spk_p2pkh(h[:20]), tm.spk_p2sh(h[:20]), tm.spk_p2wpkh(h[:20]), tm.spk_p2wsh(h), tm.spk_p2tr(h)])
            elif m < 0.62:
                # canonical scripts that merely *resemble* a standard template: extended, prefixed, wrong hash length
                base = r.choice([tm.spk_p2pkh(h[:20]), tm.spk_p2sh(h[:20]), tm.spk_p2wpkh(h[:20]), tm.spk_p2wsh(h), tm.spk_p2tr(h)])
                form = r.randrange(4)
                extra = r.choice([b"\x61", b"\x51", b"\x75\x51", tm.push(h[:3]), b"\x00"])
                if form == 0:
                    spk = base + extra
                elif form == 1:
                    spk = extra + base
                elif form == 2:
                    spk = r.choice([b"\xa9" + tm.push(h[:19]) + b"\x87", b"\xa9" + tm.push(h[:21]) + b"\x87", b"\x00" + tm.push(h[:19]), b"\x00" + tm.push(h[:31]), b"\x51" + tm.push(h[:31]), b"\x52" + tm.push(h),
                                    b"\x76\xa9" + tm.push(h[:21]) + b"\x88\xac", b"\x76\xa9" + tm.push(h[:20]) + b"\x88\xad"])
                else:
                    spk = base + base
            else:
                spk, _c = gen_script(r, r.randrange(0, 4), canonical=not noncanon)
            outs.append({"amount": r.choice([0, 1, 546, 2**32 - 1, 2**32, 21 * 10**14, 2**63, 2**64 - 1, r.getrandbits(48)]), "spk": spk})
        tx = {"version": r.choice([1, 2, 0, 0xFFFFFFFF, 0x7FFFFFFF]), "ins": ins, "outs": outs, "locktime": r.choice([0, 1, 499999999, 500000000, 2**32 - 1, r.getrandbits(32)])}
        canon = all(is_canonical_script(i["script_sig"]) for i in ins) and all(is_canonical_script(o["spk"]) for o in outs)
        txs.append({"tx": tx, "id": tm.txid(tx).hex(), "segwit": segwit, "canonical": canon, "net": r.choice(["mainnet", "mainnet", "testnet", "signet"])})
    if cfg.get("zero_in"):
        # a transaction without inputs (the quantifier's lower bound), legacy format
        outs = [{"amount": r.choice([1, 0x123456780000, r.getrandbits(40)]), "spk": tm.spk_p2wpkh(r.getrandbits(160).to_bytes(20, "big"))} for _ in range(r.choice([0, 1, 1, 2, 3]))]
        tx = {"version": r.choice([1, 2]), "ins": [], "outs": outs, "locktime": r.choice([0, 5])}
        txs.append({"tx": tx, "id": tm.txid(tx).hex(), "segwit": False, "canonical": True, "net": "mainnet", "zero_in": True})
    if cfg.get("tpl"):
        # one funding transaction with an output of every standard template, in a fixed order (spent by 'history' objects)
        h = r.getrandbits(256).to_bytes(32, "big")
        outs = [{"amount": 100000 + k, "spk": f(h[: 20 if k < 3 else 32])} for k, f in enumerate([tm.spk_p2pkh, tm.spk_p2sh, tm.spk_p2wpkh, tm.spk_p2wsh, tm.spk_p2tr])]
        tx = {"version": 2, "ins": [{"txid": r.getrandbits(256).to_bytes(32, "big"), "vout": 0, "script_sig": b"", "sequence": 0xFFFFFFFF, "witness": []}], "outs": outs, "locktime": 0}
        txs.append({"tx": tx, "id": tm.txid(tx).hex(), "segwit": False, "canonical": True, "net": "mainnet", "tpl": True})
    return txs


# ------------------------------------------------------------------------------------------------


class FakeResponse:
    def __init__(self, data):
        self.data = data

    def read(self):
        return self.data


class FakeFS:
    def __init__(self, world):
        self.files = {}
        self.world = world

    def open(self, name, mode="r", *a, **k):
        w = self.world
        if "w" in mode:
            return FakeWriter(self, name, w)
        if name not in self.files:
            raise FileNotFoundError(name)
        return io.StringIO(self.files[name])


class FakeWriter:
    def __init__(self, fs, name, world):
        self.fs = fs
        self.name = name
        self.buf = ""
        self.world = world

    def write(self, s):
        room = self.world.pending_enospc
        if room is not None and len(self.buf) + len(s) > room:
            # disk full part-way through the write: what fitted stays in the file, the call fails
            self.buf += s[: max(0, room - len(self.buf))]
            self.world.pending_enospc = None
            self.world.tr.fault("disk_full")
            self.world.torn_files.add(self.name)
            self.fs.files[self.name] = self.buf
            raise OSError(28, "No space left on device (simulated)")
        self.buf += s
        return len(s)

    def __enter__(self):
        return self

    def __exit__(self, *exc):
        self.close()
        return False

    def close(self):
        data = self.buf
        torn = self.world.pending_torn
        if torn is not None:
            self.world.pending_torn = None
            cut = torn % (len(data) + 1)
            data = data[:cut]
            self.world.tr.fault("torn_write")
            self.world.tr.probe("torn_at_end" if cut == len(self.buf) else "torn_inside")
            self.world.torn_files.add(self.name)
        else:
            self.world.torn_files.discard(self.name)
        self.fs.files[self.name] = data


class World:
    def __init__(self, plan, tr, tier="quick"):
        self.plan = plan
        self.tr = tr
        self.q = EventQueue(tr)
        self.db = gen_db(plan["db"], tier)
        self.by_id = {t["id"]: t for t in self.db}
        self.fs = FakeFS(self)
        self.pending_torn = None
        self.pending_enospc = None
        self.torn_files = set()
        self.next_resp = None
        self.served = []  # (txid, bytes or exception name)
        self.broadcasts = []
        self.accepted_honest = {}

    # -- the urlopen seam
    def urlopen(self, req, *a, **k):
        url = req.full_url
        net = None
        for n, base in btx.URL.items():
            if url.startswith(base + "/"):
                if net is None or len(base) > len(btx.URL[net]):
                    net = n
        path = url[len(btx.URL[net]) :] if net else url
        tr = self.tr
        tr.probe("server_hits")
        if req.data is not None:
            tr.ev("server", "broadcast", len(req.data))
            self.broadcasts.append((net, bytes(req.data)))
            return FakeResponse(b"ok")
        parts = path.strip("/").split("/")
        txid = parts[1] if len(parts) >= 3 and parts[0] == "tx" else None
        resp = self.next_resp or {"kind": "honest"}
        self.next_resp = None
        kind = resp["kind"]
        self.q.advance(resp.get("latency", 0.05))
        ent = self.by_id.get(txid)
        tr.ev("server", "request", f"{net}|{txid[:8] if txid else None}|{kind}")
        if kind != "honest":
            tr.fault(kind)
        if kind == "http_error":
            raise HTTPError(url, resp.get("code", 404), "simulated", {}, None)
        if kind == "timeout":
            self.q.advance(30.0)
            raise TimeoutError("simulated timeout")
        if kind == "urlerror":
            raise URLError("simulated connection failure")
        if ent is None:
            raise HTTPError(url, 404, "not found", {}, None)
        tx = ent["tx"]
        raw = tm.ser_tx(tx)
        a = resp.get("a", 0)
        if kind == "honest" or kind == "slow":
            if kind == "slow":
                self.q.advance(20.0)
            body = raw.hex()
        elif kind == "wrong_tx":
            others = [t for t in self.db if t["id"] != txid]
            body = tm.ser_tx(others[a % len(others)]["tx"]).hex() if others else tm.ser_tx(tm.clone(tx) | {"locktime": (tx["locktime"] + 1) % 2**32}).hex()
        elif kind == "tweaked_field":
            t2 = tm.clone(tx)
            sel = a % 4
            if sel == 0:
                t2["locktime"] = (t2["locktime"] + 1) % 2**32
            elif sel == 1 and t2["outs"]:
                t2["outs"][0]["amount"] = (t2["outs"][0]["amount"] + 1) % 2**64
            elif sel == 2:
                t2["ins"][0]["sequence"] ^= 1
            else:
                t2["version"] = (t2["version"] + 1) % 2**32
            body = tm.ser_tx(t2).hex()
        elif kind == "bitflip":
            bb = bytearray(raw)
            bb[a % len(bb)] ^= 1 << (resp.get("bit", 0) % 8)
            body = bytes(bb).hex()
        elif kind == "truncate":
            body = raw[: a % (len(raw) + 1)].hex()
        elif kind == "garbage_hex":
            body = plan_rng(a, "g").getrandbits(8 * 60).to_bytes(60, "big").hex()
        elif kind == "not_hex":
            body = "<html><body>502 Bad Gateway</body></html>"
        elif kind == "empty":
            body = ""
        elif kind == "trailing":
            body = raw.hex() + plan_rng(a, "t").getrandbits(8 * (1 + a % 9)).to_bytes(1 + a % 9, "big").hex()
        elif kind == "whitespace_upper":
            body = ["  " + raw.hex() + "\n", raw.hex().upper(), "\n" + raw.hex().upper() + "\r\n"][a % 3]
        elif kind == "witness_stripped":
            body = tm.ser_tx(tx, witness=False).hex()
        elif kind == "witness_malleated":
            t2 = tm.clone(tx)
            for i in t2["ins"]:
                if i["witness"]:
                    i["witness"] = [bytes([b ^ 0xFF for b in w]) if w else b"\x01" for w in i["witness"]] + ([b"\x07"] if a % 2 else [])
            if not tm.has_witness(t2):
                t2["ins"][0]["witness"] = [b"\x09"]
            body = tm.ser_tx(t2).hex()
        elif kind == "noncanonical_reencode":
            # same transaction, but a scriptSig push re-encoded with PUSHDATA1: different bytes, different txid
            t2 = tm.clone(tx)
            done = False
            for i in t2["ins"]:
                ss = i["script_sig"]
                if ss and 1 <= ss[0] <= 75 and len(ss) >= 1 + ss[0]:
                    i["script_sig"] = b"\x4c" + ss
                    done = True
                    break
            if not done:
                t2["ins"][0]["script_sig"] = b"\x4c\x01\x07" + t2["ins"][0]["script_sig"]
            body = tm.ser_tx(t2).hex()
        else:
            raise ValueError(kind)
        self.served.append((txid, body))
        return FakeResponse(body.encode())

    # -- F1: cache invariant
    def check_cache(self, where):
        tr = self.tr
        tr.oracle("F1_cache")
        for k in sorted(TxFetcher.cache):
            v = TxFetcher.cache[k]
            try:
                vid = v.id()
            except Exception as e:
                ent = self.by_id.get(k)
                if ent is not None and ent["canonical"]:
                    fail("F2", "cached_tx_unserialisable", f"{where}: cache entry {k[:16]} cannot be re-serialised ({type(e).__name__}: {e}) although the served encoding is canonical")
                continue
            if vid != k:
                fail("F1", "cache_poisoned", f"{where}: cache maps {k[:16]}.. to a transaction whose id is {vid[:16]}..")


def execute(plan, prop, trace):
    _TR[0] = trace
    tr = trace
    w = World(plan, tr)
    saved_urlopen = btx.urlopen
    had_open = "open" in btx.__dict__
    saved_cache = TxFetcher.cache
    TxFetcher.cache = {}
    btx.urlopen = w.urlopen
    btx.open = w.fs.open
    try:
        return _execute(plan, w, tr)
    finally:
        btx.urlopen = saved_urlopen
        if not had_open:
            del btx.open
        TxFetcher.cache = saved_cache


def script_commands(raw):
    """canonical script bytes -> command list for the Script constructor (ints for opcodes, bytes for pushed data)"""
    cmds = []
    p = 0
    while p < len(raw):
        op = raw[p]
        if 1 <= op <= 75:
            cmds.append(raw[p + 1 : p + 1 + op])
            p += 1 + op
        elif op == 0x4C:
            n = raw[p + 1]
            cmds.append(raw[p + 2 : p + 2 + n])
            p += 2 + n
        elif op == 0x4D:
            n = int.from_bytes(raw[p + 1 : p + 3], "little")
            cmds.append(raw[p + 3 : p + 3 + n])
            p += 3 + n
        else:
            cmds.append(op)
            p += 1
    return cmds


def build_through_api(mt, segwit, late_witness=False):
    """late_witness: the caller builds the Tx with the constructor's defaults and only afterwards attaches the witnesses, as the
    library's own signing helpers (finalize_p2wpkh, sign_input, ...) do; nothing asks it to flip a flag."""
    from buidl.witness import Witness

    if late_witness and segwit:
        tx_ins = [TxIn(i["txid"], i["vout"], Script(script_commands(i["script_sig"])), i["sequence"]) if i["script_sig"] else TxIn(i["txid"], i["vout"], sequence=i["sequence"]) for i in mt["ins"]]
        tx_outs = [TxOut(o["amount"], Script(script_commands(o["spk"]))) for o in mt["outs"]]
        t = Tx(mt["version"], tx_ins, tx_outs, mt["locktime"], network="mainnet")
        for ti, i in zip(t.tx_ins, mt["ins"]):
            ti.witness = Witness(list(i["witness"]))
        return t
    tx_ins = []
    for i in mt["ins"]:
        if i["script_sig"]:
            ti = TxIn(i["txid"], i["vout"], Script(script_commands(i["script_sig"])), i["sequence"])
        else:
            ti = TxIn(i["txid"], i["vout"], sequence=i["sequence"])  # as API users do: no scriptSig yet
        if segwit:
            ti.witness = Witness(list(i["witness"]))
        tx_ins.append(ti)
    tx_outs = [TxOut(o["amount"], Script(script_commands(o["spk"]))) for o in mt["outs"]]
    return Tx(mt["version"], tx_ins, tx_outs, mt["locktime"], network="mainnet", segwit=segwit)


def compare_fields(r, tx, where):
    """library object fields against the reference transaction (only used for honest, accepted responses)"""
    if r.version != tx["version"] or int(r.locktime) != tx["locktime"] or len(r.tx_ins) != len(tx["ins"]) or len(r.tx_outs) != len(tx["outs"]):
        fail("F2", "fields_differ", f"{where}: version/locktime/counts differ from the served transaction")
        return
    for a, b in zip(r.tx_ins, tx["ins"]):
        if a.prev_tx != b["txid"] or a.prev_index != b["vout"] or int(a.sequence) != b["sequence"]:
            fail("F2", "fields_differ", f"{where}: an input's outpoint/sequence differs from the served transaction")
            return
    for a, b in zip(r.tx_outs, tx["outs"]):
        if a.amount != b["amount"]:
            fail("F2", "fields_differ", f"{where}: an output amount differs from the served transaction")
            return


def _execute(plan, w, tr):
    outcomes = []
    for st in plan["steps"]:
        op = st["op"]
        if op == "fetch":
            ent = w.db[st["tx"] % len(w.db)]
            txid = ent["id"] if not st.get("unknown_id") else plan_rng(st["tx"], "u").getrandbits(256).to_bytes(32, "big").hex()
            net = st.get("net") or ent["net"]
            w.next_resp = st.get("resp")
            hits0 = tr.probes.get("server_hits", 0)
            kind = (st.get("resp") or {}).get("kind", "honest")
            try:
                r = TxFetcher.fetch(txid, network=net, fresh=st.get("fresh", False))
                out = "returned"
            except SimDeadlock:
                raise
            except Exception as e:
                r = None
                out = "raised:" + type(e).__name__
            reached = tr.probes.get("server_hits", 0) > hits0
            w.next_resp = None
            tr.ev("client", "fetch", f"{txid[:8]}|{net}|{st.get('fresh', False)}|{kind if reached else 'cache'}|{out}")
            tr.state("fetch", kind if reached else "cache", out.split(":")[0], ent["segwit"], ent["canonical"], min(len(TxFetcher.cache), 6), bool(st.get("fresh")))
            outcomes.append(out)
            if r is not None and reached and w.served and w.served[-1][0] == txid:
                # F1 on the delivered bytes: whatever the fetcher accepted must hash (witness-stripped, by the reference) to the requested id
                body = w.served[-1][1].strip()
                try:
                    served_raw = bytes.fromhex(body)
                    rtx, _sw, _end = tm.parse_tx_at(served_raw, 0, strict=False)
                    served_id = tm.txid(rtx).hex()
                except Exception:
                    served_id = None
                # not an oracle: the property speaks of the returned *object* (checked below); bytes that only differ by a push
                # encoding the parser normalises (PUSHDATA1 for a short push) legitimately yield the genuine transaction
                if served_id is not None and served_id != txid:
                    tr.probe("accepted_after_normalising_noncanonical_bytes")
            if r is not None:
                tr.oracle("F1")
                try:
                    rid = r.id()
                    rh = r.hash().hex()
                except Exception as e:
                    rid = None
                    if ent["canonical"] and not st.get("unknown_id"):
                        fail("F2", "returned_tx_unserialisable", f"fetch returned a transaction whose id() raises {type(e).__name__}: {e} (served encoding is canonical; pushes: see replay)")
                    else:
                        tr.probe("noncanonical_unserialisable")
                if rid is not None and (rid != txid or rh != txid):
                    fail("F1", "returned_tx_wrong_id" + ("" if ent["canonical"] else "_noncanonical"), f"fetch({txid[:16]}.., fresh={st.get('fresh', False)}) returned a transaction whose id() is {rid[:16]}.. (server behaviour: {kind if reached else 'cache hit'})")
                if rid is not None and reached and kind in ("honest", "slow", "whitespace_upper") and not st.get("unknown_id"):
                    # F2/F3: honest response -> object equals the served transaction
                    tr.oracle("F2")
                    raw = tm.ser_tx(ent["tx"])
                    compare_fields(r, ent["tx"], "honest fetch")
                    if ent["canonical"]:
                        try:
                            ser = r.serialize()
                        except Exception as e:
                            ser = None
                            fail("F2", "serialize_raised", f"serialize() of an honestly served canonical transaction raised {type(e).__name__}: {e}")
                        if ser is not None and ser != raw:
                            fail("F2", "roundtrip_differs", f"parse+serialize of an honestly served canonical {'segwit' if ent['segwit'] else 'legacy'} transaction differs from the served bytes ({len(ser)} vs {len(raw)} bytes)")
                        tr.probe("honest_roundtrip_" + ("segwit" if ent["segwit"] else "legacy"))
                    if ent["segwit"]:
                        tr.oracle("F3")
                        if rid != tm.sha256d(tm.ser_tx(ent["tx"], witness=False))[::-1].hex():
                            fail("F3", "txid_not_witness_stripped", "id of a segwit transaction is not the hash of its witness-stripped serialisation")
                if rid is not None and reached and kind == "witness_malleated":
                    tr.probe("malleated_accepted")
            else:
                if reached and kind in ("honest", "slow") and ent["canonical"] and not st.get("unknown_id") and net in btx.URL:
                    tr.oracle("F2")
                    fail("F2", "honest_canonical_rejected" + ("_zero_inputs" if not ent["tx"]["ins"] else ""), f"honest, canonically encoded {'segwit' if ent['segwit'] else 'legacy'} response for {txid[:16]}.. was rejected: {out}")
                if reached and kind in ("witness_malleated", "witness_stripped", "whitespace_upper") and ent["canonical"] and not st.get("unknown_id"):
                    tr.probe("benign_variant_rejected")
            w.check_cache("after fetch")
        elif op == "lazy":
            # a spending transaction whose inputs reference database transactions: value()/script_pubkey()/fee() fetch lazily
            ent = w.db[st["tx"] % len(w.db)]
            if not ent["tx"]["outs"]:
                continue
            vout = st["vout"] % len(ent["tx"]["outs"])
            ti = TxIn(bytes.fromhex(ent["id"]), vout)
            w.next_resp = st.get("resp")
            kind = (st.get("resp") or {}).get("kind", "honest")
            try:
                if st.get("what") == "fee":
                    spender = Tx(1, [ti], [TxOut(0, Script([0x51]))], 0, network=ent["net"])
                    val = spender.fee()
                    exp = ent["tx"]["outs"][vout]["amount"]
                elif st.get("what") == "script":
                    val = ti.script_pubkey(network=ent["net"]).raw_serialize()
                    exp = ent["tx"]["outs"][vout]["spk"]
                elif st.get("what") == "lookup":
                    spender = Tx(1, [ti], [], 0, network=ent["net"])
                    lk = spender.get_input_tx_lookup()
                    val = sorted(k.hex() for k in lk)
                    exp = [ent["id"]]
                else:
                    val = ti.value(network=ent["net"])
                    exp = ent["tx"]["outs"][vout]["amount"]
                out = "returned"
            except SimDeadlock:
                raise
            except Exception as e:
                val = None
                out = "raised:" + type(e).__name__
            w.next_resp = None
            tr.ev("client", "lazy", f"{st.get('what', 'value')}|{kind}|{out}")
            tr.state("lazy", st.get("what", "value"), kind, out.split(":")[0], min(len(TxFetcher.cache), 6))
            outcomes.append(out)
            tr.oracle("F1_lazy")
            if val is not None and val != exp:
                if st.get("what") == "script" and not is_canonical_script(exp):
                    tr.probe("noncanonical_script_reencoded")
                else:
                    fail("F1", "lazy_wrong_data", f"lazy {st.get('what', 'value')} look-up of output {vout} of {ent['id'][:16]}.. returned {val!r:.80}, the genuine transaction says {exp!r:.80} (server behaviour: {kind})")
            w.check_cache("after lazy look-up")
        elif op == "bitrot":
            # a stored character of the cache file changes on disk (hex digit -> another hex digit keeps the file well-formed JSON)
            name = st.get("file", "tx.cache")
            data = w.fs.files.get(name)
            if not data:
                continue
            pos = st["pos"] % len(data)
            # prefer a position inside a hex string: search forward for a hex digit
            for off in range(len(data)):
                q = (pos + off) % len(data)
                if data[q] in "0123456789abcdef":
                    pos = q
                    break
            old_c = data[pos]
            new_c = "0123456789abcdef"[(("0123456789abcdef".index(old_c) if old_c in "0123456789abcdef" else 0) + 1 + st["c"] % 15) % 16]
            if st.get("mode") == "nonhex":
                new_c = "gGxz~ "[st["c"] % 6]  # still a legal JSON string character, no longer a hex digit
            elif st.get("mode") == "delete":
                new_c = ""  # one character lost: an odd number of hex digits
            w.fs.files[name] = data[:pos] + new_c + data[pos + 1 :]
            w.torn_files.add(name)
            tr.fault("stored_byte_flipped")
            tr.ev("disk", "bitrot", f"{pos}|{old_c}>{new_c}")
        elif op == "dump":
            if st.get("torn") is not None:
                w.pending_torn = st["torn"]
            if st.get("enospc") is not None:
                w.pending_enospc = st["enospc"]
            try:
                TxFetcher.dump_cache(st.get("file", "tx.cache"))
                out = "ok"
            except SimDeadlock:
                raise
            except Exception as e:
                out = "raised:" + type(e).__name__
                w.pending_torn = None
                w.pending_enospc = None
                # a cached transaction that cannot be serialised (non-canonical/75-byte-push cases are judged at fetch time)
            if out != "ok":
                w.torn_files.add(st.get("file", "tx.cache"))  # dump did not complete: the file is not an intact dump
            tr.ev("client", "dump", f"{len(TxFetcher.cache)}|{out}")
            w.pending_enospc = None
            w.check_cache("after dump_cache")
            outcomes.append(out)
        elif op == "restart":
            TxFetcher.cache = {}
            tr.fault("restart")
            tr.probe("restarts")
            tr.ev("client", "restart")
        elif op == "load":
            name = st.get("file", "tx.cache")
            before = dict(TxFetcher.cache)
            try:
                TxFetcher.load_cache(name)
                out = "ok"
            except SimDeadlock:
                raise
            except Exception as e:
                out = "raised:" + type(e).__name__
            tr.ev("client", "load", out)
            tr.oracle("F4")
            outcomes.append(out)
            if out != "ok" and name in w.fs.files and name not in w.torn_files:
                fail("F4", "load_of_intact_dump_failed", f"load_cache of a file written by dump_cache without disk faults failed: {out}")
            w.check_cache("after load_cache")
            tr.state("load", out.split(":")[0], name in w.torn_files)
        elif op == "history":
            # one Tx object (parsed from honest bytes or built through the API), a sequence of edits, and after every edit:
            # id()/hash() equal the reference txid of the mirrored model, serialize() equals the reference serialisation
            ent = w.db[st["tx"] % len(w.db)]
            if not ent["canonical"] and ent["tx"]["ins"]:
                # scripts that are not minimally encoded cannot be mirrored edit by edit (the library keeps their bytes until they are
                # edited); what must still hold: an in-place change of non-witness data through the public command lists changes the id
                try:
                    obj = Tx.parse(BytesIO(tm.ser_tx(ent["tx"])), network="mainnet")
                    id0, ser0 = obj.id(), obj.serialize()
                    for j_, ti_ in enumerate(obj.tx_ins):
                        ti_.script_sig.commands.append(bytes([7 + j_]) * 5)
                    for to_ in obj.tx_outs:
                        to_.script_pubkey.commands.append(0x51)
                    id1, ser1 = obj.id(), obj.serialize()
                except SimDeadlock:
                    raise
                except Exception as e:
                    tr.probe("noncanonical_history_raised")
                    continue
                tr.oracle("F3_noncanonical_history")
                tr.fault("edit_in_place_noncanonical_scripts")
                if id1 == id0 or ser1 == ser0:
                    fail("F3", "txid_unchanged_by_in_place_script_edit", "appending to the command lists of every scriptSig and output script of a parsed transaction (whose scripts are not minimally encoded) leaves id() / serialize() unchanged")
                continue
            if not ent["canonical"] or not ent["tx"]["ins"]:
                continue
            model = tm.clone(ent["tx"])
            segwit = ent["segwit"]
            if not segwit:
                for i_ in model["ins"]:
                    i_["witness"] = []
            sp = st.get("spend_db")
            if sp is not None and w.db[-1].get("tpl"):
                # input 0 spends a standard-template output of the funding transaction the explorer serves
                fund = w.db[-1]
                vout = sp["vout"] % 5
                b = bytes([sp["b"] % 256])
                model["ins"][0].update(txid=bytes.fromhex(fund["id"]), vout=vout, script_sig=b"")
                if segwit:
                    model["ins"][0]["witness"] = {"key": [b * 64], "key_annex": [b * 64, b"\x50" + b * 3], "script_annex": [b"\x01", b"\x51", b"\xc0" + b * 32, b"\x50\x01"], "two": [b * 71, b"\x02" + b * 32],
                                                  "script": [b"", b * 71, b"\x51" + b"\x21\x02" + b * 32 + b"\x51\xae"]}[sp["wit"]]
                else:
                    model["ins"][0]["script_sig"] = tm.push(b * 71) + tm.push(b"\x02" + b * 32)
                tr.probe("history_spends_template_" + ["p2pkh", "p2sh", "p2wpkh", "p2wsh", "p2tr"][vout])
            try:
                obj = build_through_api(model, segwit) if st.get("via_api") else Tx.parse(BytesIO(tm.ser_tx(model)), network="mainnet")
            except SimDeadlock:
                raise
            except Exception as e:
                fail("F2", "history_object_not_constructible", f"{type(e).__name__}: {e}")
                continue
            from buidl.timelock import Locktime, Sequence
            from buidl.witness import Witness as _W

            def check(label):
                tr.oracle("F3_history")
                try:
                    got_id, got_hash, got_ser = obj.id(), obj.hash(), obj.serialize()
                except SimDeadlock:
                    raise
                except Exception as e:
                    fail("F3", "history_id_raised", f"id()/serialize() raised after {label}: {type(e).__name__}: {e}")
                    return
                want = tm.txid(model)
                if got_id != want.hex() or got_hash != want:
                    fail("F3", "txid_stale_or_wrong_after_" + label.split(":")[0], f"after {label} on one {'segwit' if segwit else 'legacy'} object id() is {got_id[:16]}.., the witness-stripped hash of the current state is {want.hex()[:16]}..")
                want_ser = tm.ser_tx(model, witness=segwit)
                if got_ser != want_ser:
                    fail("F2", "serialize_after_" + label.split(":")[0], f"serialize() after {label} differs from the reference serialisation of the mirrored state")

            check("construction")
            tr.probe("histories")
            for e in st["edits"]:
                k = e["e"]
                if k == "out_amount" and model["outs"]:
                    j = e["j"] % len(model["outs"])
                    model["outs"][j]["amount"] = e["v"]
                    obj.tx_outs[j].amount = e["v"]
                elif k == "out_remove" and len(model["outs"]) > 1:
                    j = e["j"] % len(model["outs"])
                    model["outs"].pop(j)
                    obj.tx_outs.pop(j)
                elif k == "out_append":
                    spk = tm.spk_p2wpkh(bytes([e["j"] % 256]) * 20)
                    model["outs"].append({"amount": e["v"], "spk": spk})
                    obj.tx_outs.append(TxOut(e["v"], Script(script_commands(spk))))
                elif k == "locktime":
                    model["locktime"] = e["v"] % 2**32
                    try:
                        obj.locktime = Locktime(e["v"] % 2**32)
                    except Exception as ex:
                        fail("F2", "legal_field_value_refused_locktime", f"Locktime({e['v'] % 2**32}) raised {type(ex).__name__}: {ex}")
                        break
                elif k == "version":
                    model["version"] = e["v"] % 2**32
                    obj.version = e["v"] % 2**32
                elif k == "sequence":
                    j = e["j"] % len(model["ins"])
                    model["ins"][j]["sequence"] = e["v"] % 2**32
                    try:
                        obj.tx_ins[j].sequence = Sequence(e["v"] % 2**32)
                    except Exception as ex:
                        fail("F2", "legal_field_value_refused_sequence", f"Sequence({e['v'] % 2**32}) raised {type(ex).__name__}: {ex}")
                        break
                elif k == "outpoint":
                    j = e["j"] % len(model["ins"])
                    model["ins"][j]["vout"] = e["v"] % 2**32
                    obj.tx_ins[j].prev_index = e["v"] % 2**32
                elif k == "script_sig":
                    j = e["j"] % len(model["ins"])
                    ss = tm.push(bytes([e["v"] % 256]) * (1 + e["v"] % 40))
                    model["ins"][j]["script_sig"] = ss
                    obj.tx_ins[j].script_sig = Script(script_commands(ss))
                elif k == "witness" and segwit:
                    j = e["j"] % len(model["ins"])
                    items = [bytes([e["v"] % 256]) * (e["v"] % 70)]
                    model["ins"][j]["witness"] = items
                    obj.tx_ins[j].witness = _W(list(items))
                elif k == "script_sig_append":
                    # in-place assembly of a scriptSig through the public command list
                    j = e["j"] % len(model["ins"])
                    data = bytes([e["v"] % 256]) * (1 + e["v"] % 60)
                    model["ins"][j]["script_sig"] += tm.push(data)
                    obj.tx_ins[j].script_sig.commands.append(data)
                elif k == "witness_append" and segwit:
                    j = e["j"] % len(model["ins"])
                    data = bytes([e["v"] % 256]) * (e["v"] % 70)
                    model["ins"][j]["witness"] = list(model["ins"][j]["witness"]) + [data]
                    obj.tx_ins[j].witness.items.append(data)
                elif k.startswith("use_"):
                    # read-only use of the object between edits (whatever it returns or raises): the object must still be the same transaction
                    j = e["j"] % len(model["ins"])
                    try:
                        with contextlib.redirect_stdout(io.StringIO()):
                            if k == "use_verify":
                                obj.verify_input(j)
                            elif k == "use_fee":
                                obj.fee()
                            elif k == "use_sighash":
                                obj.sig_hash(j, 1)
                            elif k == "use_repr":
                                repr(obj)
                            elif k == "use_clone":
                                c2 = obj.clone()
                                if c2.tx_outs:
                                    c2.tx_outs[0].amount = 1
                                if c2.tx_ins:
                                    c2.tx_ins[0].prev_index = 7
                                    if segwit:
                                        c2.tx_ins[0].witness.items.append(b"\x01")
                        tr.probe(k + "_returned")
                    except SimDeadlock:
                        raise
                    except Exception as ex:
                        tr.probe(k + "_raised")
                    w.next_resp = None
                else:
                    continue
                tr.fault(("edit_" if not k.startswith("use_") else "") + k)
                tr.ev("client", "edit", k)
                tr.state("hist", k, segwit, bool(st.get("via_api")), (st.get("spend_db") or {}).get("vout"), (st.get("spend_db") or {}).get("wit") if segwit else None)
                check(k)
        elif op == "broadcast":
            # a transaction built through the API (constructors, no parsing), serialised, sent to the explorer, which parses it with
            # the reference parser: every field must arrive, and the bytes must be the canonical encoding of the model
            ent = w.db[st["tx"] % len(w.db)]
            if not ent["canonical"]:
                continue
            mt = ent["tx"]
            try:
                lib_tx = build_through_api(mt, ent["segwit"], late_witness=bool(st.get("late_witness")))
                if st.get("late_witness") and ent["segwit"]:
                    tr.fault("witness_attached_after_construction")
                raw_hex = lib_tx.serialize().hex()
                n0 = len(w.broadcasts)
                TxFetcher.sendrawtransaction(raw_hex, network=st.get("net", "mainnet"))
                out = "sent"
            except SimDeadlock:
                raise
            except Exception as e:
                out = "raised:" + type(e).__name__
                fail("F2", "api_built_tx_not_serialisable", f"a transaction built through the API ({len(mt['ins'])} inputs, {len(mt['outs'])} outputs, segwit={ent['segwit']}) could not be serialised/sent: {type(e).__name__}: {e}")
                continue
            tr.ev("client", "broadcast", out)
            tr.oracle("F2_api")
            tr.probe("broadcasts")
            if len(w.broadcasts) == n0 + 1:
                body = w.broadcasts[-1][1]
                try:
                    got, sw = tm.parse_tx(bytes.fromhex(body.decode()), strict=True)
                except Exception as e:
                    fail("F2", "api_built_tx_unparsable" + ("_zero_inputs" if not mt["ins"] else ""), f"the explorer's strict parser rejects the bytes of an API-built transaction: {e}")
                    continue
                want = tm.clone(mt)
                if not ent["segwit"]:
                    for i_ in want["ins"]:
                        i_["witness"] = []
                if got != want:
                    diff = [k for k in ("version", "locktime") if got[k] != want[k]] + (["ins"] if got["ins"] != want["ins"] else []) + (["outs"] if got["outs"] != want["outs"] else [])
                    fail("F2", "api_built_tx_fields_differ" + ("_zero_inputs" if not mt["ins"] else ""), f"fields {diff} of an API-built transaction differ after serialise -> strict reference parse")
                if lib_tx.id() != tm.txid(mt).hex():
                    fail("F3", "api_built_txid", "id() of an API-built transaction is not the hash of its witness-stripped serialisation")
        else:
            raise ValueError(op)
    return {"db": [{"id": t["id"][:12], "segwit": t["segwit"], "canonical": t["canonical"], "ins": len(t["tx"]["ins"]), "outs": len(t["tx"]["outs"])} for t in w.db],
            "steps": [s["op"] + (":" + s["resp"]["kind"] if s.get("resp") else "") for s in plan["steps"]], "outcomes": outcomes}


# ------------------------------------------------------------------------------------------------

EDIT_KINDS = ["out_amount", "out_remove", "out_append", "locktime", "version", "sequence", "outpoint", "script_sig", "witness", "witness", "script_sig_append", "script_sig_append", "witness_append",
              "use_verify", "use_verify", "use_fee", "use_sighash", "use_repr", "use_clone"]
RESP_KINDS = ["bitflip", "bitflip", "wrong_tx", "tweaked_field", "truncate", "garbage_hex", "not_hex", "empty", "trailing", "whitespace_upper", "witness_stripped", "witness_malleated", "noncanonical_reencode",
              "http_error", "timeout", "urlerror", "slow"]


def gen_resp(ch, enabled):
    k = ch.choice(enabled)
    return {"kind": k, "a": ch.randrange(0, 100000), "bit": ch.randrange(8), "latency": ch.choice([0.01, 0.05, 0.5, 3.0])}


def generate(ch, tier, prop):
    db = {"seed": ch.randrange(1 << 30), "n": ch.randrange(2, 8), "noncanonical": ch.chance(0.3), "huge": ch.chance(0.03), "big": ch.chance(0.03 if tier == "quick" else 0.1), "tpl": ch.chance(0.6), "zero_in": ch.chance(0.15)}
    fault_free = ch.chance(0.25)
    enabled = [] if fault_free else [k for k in RESP_KINDS if ch.chance(0.45)]
    disk = (not fault_free) and ch.chance(0.4)
    steps = []
    p = ch.choice([0.2, 0.5, 0.8])
    for _ in range(ch.randrange(2, 16)):
        r = ch.random()
        if r < 0.55:
            st = {"op": "fetch", "tx": ch.randrange(8), "fresh": ch.chance(0.4)}
            if ch.chance(0.15):
                st["net"] = ch.choice(["mainnet", "testnet", "signet"])
            if ch.chance(0.03):
                st["unknown_id"] = True
            if enabled and ch.chance(p):
                st["resp"] = gen_resp(ch, enabled)
            steps.append(st)
        elif r < 0.75:
            st = {"op": "lazy", "tx": ch.randrange(8), "vout": ch.randrange(8), "what": ch.choice(["value", "script", "fee", "lookup"])}
            if enabled and ch.chance(p):
                st["resp"] = gen_resp(ch, enabled)
            steps.append(st)
        elif r < 0.85:
            st = {"op": "dump"}
            if disk and ch.chance(0.5):
                st["torn"] = ch.randrange(0, 100000)
            elif disk and ch.chance(0.3):
                st["enospc"] = ch.choice([0, 1, 2, 50, 200, 1000, ch.randrange(0, 3000)])
            steps.append(st)
            if disk and ch.chance(0.4):
                steps.append({"op": "bitrot", "pos": ch.randrange(0, 100000), "c": ch.randrange(15), "mode": ch.choice(["hex", "hex", "nonhex", "delete"])})
            if ch.chance(0.7):
                steps.append({"op": "restart"})
                steps.append({"op": "load"})
        elif r < 0.90:
            steps.append({"op": "restart"})
        elif r < 0.93:
            steps.append({"op": "broadcast", "tx": ch.randrange(8), "net": ch.choice(["mainnet", "testnet", "signet"]), "late_witness": ch.chance(0.4)})
        elif r < 0.97:
            st = {"op": "history", "tx": ch.randrange(8), "via_api": ch.chance(0.5),
                  "edits": [{"e": ch.choice(EDIT_KINDS), "j": ch.randrange(8) if ch.chance(0.7) else 0, "v": ch.choice([0, 1, 2**32 - 1, ch.getrandbits(40)])}
                            for _ in range(ch.randrange(1, 7))]}
            if ch.chance(0.5):
                st["spend_db"] = {"vout": ch.randrange(5), "b": ch.randrange(256), "wit": ch.choice(["key", "key_annex", "key_annex", "script_annex", "two", "script"])}
            steps.append(st)
        else:
            steps.append({"op": "load"})
    return {"db": db, "steps": steps}


def enumerate_plans(tier, prop, seed):
    # truncation of an honest response at every offset (fault enumeration), legacy and segwit
    base_db = {"seed": 4242 + seed, "n": 3}
    db = gen_db(base_db, tier)
    for k, ent in enumerate(db[:2] if tier == "quick" else db):
        n = len(tm.ser_tx(ent["tx"]))
        for cut in range(0, n + 1):
            yield {"db": base_db, "steps": [{"op": "fetch", "tx": k, "fresh": True, "resp": {"kind": "truncate", "a": cut}}, {"op": "fetch", "tx": k, "fresh": False}], "enum": "truncate"}
    # every response kind, then a cached fetch, dump, restart, load, fetch
    for kind in RESP_KINDS:
        for a in range(3):
            yield {"db": base_db, "steps": [{"op": "fetch", "tx": 0, "fresh": False, "resp": {"kind": kind, "a": a}}, {"op": "fetch", "tx": 0}, {"op": "dump"}, {"op": "restart"}, {"op": "load"}, {"op": "fetch", "tx": 0},
                                            {"op": "lazy", "tx": 0, "vout": 0, "what": "value"}], "enum": "kinds"}
    # torn write at every 7th offset
    for cut in range(0, 400, 7 if tier == "quick" else 1):
        yield {"db": base_db, "steps": [{"op": "fetch", "tx": 0}, {"op": "fetch", "tx": 1}, {"op": "dump", "torn": cut}, {"op": "restart"}, {"op": "load"}, {"op": "fetch", "tx": 0}], "enum": "torn"}


    # a stored character flipped at every 3rd (thorough: every) position of a two-transaction dump, then restart, load, fetch from cache
    for pos in range(0, 900, 3 if tier == "quick" else 1):
        yield {"db": base_db, "steps": [{"op": "fetch", "tx": 0}, {"op": "fetch", "tx": 1}, {"op": "dump"}, {"op": "bitrot", "pos": pos, "c": pos % 15}, {"op": "restart"}, {"op": "load"}, {"op": "fetch", "tx": 0}, {"op": "fetch", "tx": 1},
                                        {"op": "lazy", "tx": 0, "vout": 0, "what": "value"}], "enum": "bitrot"}
    for pos in range(0, 900, 7 if tier == "quick" else 1):
        for mode in ("nonhex", "delete"):
            yield {"db": base_db, "steps": [{"op": "fetch", "tx": 0}, {"op": "fetch", "tx": 1}, {"op": "fetch", "tx": 2}, {"op": "dump"}, {"op": "bitrot", "pos": pos, "c": pos % 15, "mode": mode}, {"op": "restart"}, {"op": "load"},
                                            {"op": "fetch", "tx": 0}, {"op": "fetch", "tx": 1}, {"op": "fetch", "tx": 2}], "enum": "bitrot-" + mode}
    for room in range(0, 400, 9 if tier == "quick" else 1):
        yield {"db": base_db, "steps": [{"op": "fetch", "tx": 0}, {"op": "fetch", "tx": 1}, {"op": "dump", "enospc": room}, {"op": "fetch", "tx": 0}, {"op": "restart"}, {"op": "load"}, {"op": "fetch", "tx": 1}], "enum": "enospc"}
    # in-place edits of parsed transactions with non-minimally encoded scripts
    for sd in range(4):
        for k in range(4):
            yield {"db": {"seed": 1331 + seed + sd, "n": 4, "noncanonical": True}, "steps": [{"op": "history", "tx": k, "via_api": False, "edits": []}], "enum": "noncanonical-history"}
    # API-built transactions without inputs
    for sd in range(6):
        yield {"db": {"seed": 551 + seed + sd, "n": 2, "zero_in": True}, "steps": [{"op": "broadcast", "tx": 2, "net": "mainnet"}], "enum": "zero-inputs"}
    # API-built transactions whose witnesses are attached after construction
    for k in range(6):
        yield {"db": {"seed": 991 + seed, "n": 6}, "steps": [{"op": "broadcast", "tx": k, "net": "mainnet", "late_witness": True}], "enum": "late-witness"}
    # object histories: every template output x witness shape x read-only use, parsed and API-built
    tdb = {"seed": 777 + seed, "n": 3, "tpl": True}
    for vout in range(5):
        for wit in ("key", "key_annex", "script_annex", "two", "script"):
            for use in ("use_verify", "use_fee", "use_sighash", "use_repr", "use_clone"):
                for via_api in (False, True):
                    for k in range(3):
                        yield {"db": tdb, "steps": [{"op": "history", "tx": k, "via_api": via_api, "spend_db": {"vout": vout, "b": 7 + vout, "wit": wit}, "edits": [{"e": use, "j": 0, "v": 1}, {"e": "locktime", "j": 0, "v": 5}, {"e": use, "j": 0, "v": 1}]}],
                               "enum": "uses"}
    # in-place assembly on one object, then another object built through the API (and broadcast)
    for k in range(3):
        for k2 in range(3):
            for ed in ("script_sig_append", "witness_append"):
                yield {"db": tdb, "steps": [{"op": "history", "tx": k, "via_api": True, "spend_db": {"vout": 0, "b": 9, "wit": "key"}, "edits": [{"e": ed, "j": 0, "v": 33}, {"e": ed, "j": 1, "v": 34}]},
                                            {"op": "broadcast", "tx": k2, "net": "mainnet"}, {"op": "history", "tx": k2, "via_api": True, "spend_db": {"vout": 2, "b": 9, "wit": "key"}, "edits": [{"e": "locktime", "j": 0, "v": 1}]}], "enum": "inplace"}


def shrink(plan):
    for i, st in enumerate(plan["steps"]):
        if st.get("op") == "history" and len(st.get("edits", [])) > 1:
            for j in range(len(st["edits"])):
                p = dict(plan, steps=[dict(x) for x in plan["steps"]])
                p["steps"][i]["edits"] = st["edits"][:j] + st["edits"][j + 1 :]
                yield p
        if st.get("resp"):
            p = dict(plan, steps=[dict(x) for x in plan["steps"]])
            del p["steps"][i]["resp"]
            yield p
    if plan["db"]["n"] > 2:
        yield dict(plan, db=dict(plan["db"], n=plan["db"]["n"] - 1))
    for key in ("noncanonical", "huge", "big"):
        if plan["db"].get(key):
            yield dict(plan, db=dict(plan["db"], **{key: False}))
