"""W-SHARES: SLIP39 shares held by n custodians, a dealer and a recoverer (C15).

Real code: ShareSet.generate_shares / recover_mnemonic / recover / encrypt / decrypt, Share.parse / mnemonic.
Stub: custodians (each stores one share mnemonic as text), the arrival channel (loss, duplication, order,
word corruption, swaps, truncation, mixing of splits), the RNG behind buidl.shamir.randbits (seeded, adversarial
constants, replayed), shares produced by another implementation (the published SLIP39 vectors).
"""
import json
import os
import random

import buidl.shamir as bs
from buidl.mnemonic import bytes_to_mnemonic
from buidl.shamir import Share, ShareSet

from sim.core import plan_rng

WORLD = "shares"
TIME_UNIT = "logical time: share arrivals and recovery attempts (no timers in this world)"
ALLOW_EMPTY_STEPS = True

COMPONENTS = {
    "real": ["buidl.shamir.ShareSet.generate_shares/split_secret/recover_mnemonic/recover/recover_secret/interpolate/encrypt/decrypt", "buidl.shamir.Share.parse/mnemonic, RS1024 checksum",
             "buidl.mnemonic.bytes_to_mnemonic/mnemonic_to_bytes (as used by the dealer/recoverer)"],
    "stub": ["custodians and arrival channel", "RNG behind buidl.shamir.randbits", "foreign-implementation shares (published SLIP39 vectors, data only)"],
}
LEVEL = {"C15": "exploration"}
RULE = {
    "C15": "plans drawn from Chooser(VERIF_SEED/shares/C15/index): 1-2 splits (128/256 bit, (k,n) with 1<=k<=n<=16, passphrase, exponent 0-2, RNG mode seeded / all-0 / all-255 / "
    "alternating / replayed), a sequence of share arrivals at the recoverer with loss, duplication, arbitrary order, 1-3 word corruption, >3 word corruption, word swaps, truncation and mixing "
    "of splits, recovery attempts between arrivals, reuse of one ShareSet object with several passphrases, and recoveries from published vector shares in permuted order; plus an enumerated "
    "family over (k,n) pairs and subset sizes k-1, k, k+1, n. Non-trivial = at least one recovery attempt was made on >= 1 share; distinct = distinct event-log digest.",
}
ASSUMPTIONS = {
    "C15": [
        "ground truth is the dealer's own BIP39 mnemonic; for foreign shares it is the published vector's master secret",
        "a wrong-secret return caused by a 2^-32 digest coincidence when mixing header-identical splits is treated as impossible",
        "word corruption substitutes words with a different SLIP39 index (a word with the same 4-letter prefix would be the same symbol)",
        "exhaustive GF(256) table identities are pure enumeration and not part of this check",
    ]
}
TIERS = {
    "C15": {
        "quick": {"runs": 2500, "chunk": 40, "per_run_timeout": 120, "wall_cap": 300},
        "thorough": {"runs": 60000, "chunk": 100, "per_run_timeout": 300, "wall_cap": 2400},
    }
}

_TR = [None]
_VEC = None
_WORDS = None


def fail(oracle, detail, msg):
    _TR[0].fail("C15", oracle, detail, msg)


def nontrivial(res):
    return res["probes"].get("attempts", 0) > 0 or res["probes"].get("exhaustive_positions", 0) > 0 or res["probes"].get("foreign_shares", 0) > 0


def vectors():
    global _VEC
    if _VEC is None:
        here = os.path.dirname(os.path.dirname(os.path.abspath(__file__)))
        _VEC = json.load(open(os.path.join(here, "ref", "vectors", "slip39_recover.json")))["recover"]
    return _VEC


def words():
    global _WORDS
    if _WORDS is None:
        path = os.path.join(os.path.dirname(bs.__file__), "slip39_words.txt")
        _WORDS = [w.strip() for w in open(path) if w.strip()]
        assert len(_WORDS) == 1024
    return _WORDS


class Rng:
    """The seam behind buidl.shamir.randbits."""

    def __init__(self, spec, trace):
        self.mode = spec["mode"]
        self.r = random.Random(spec.get("seed", 0))
        self.calls = 0
        self.trace = trace

    def __call__(self, n):
        self.calls += 1
        if self.mode == "const0":
            return 0
        if self.mode == "const255":
            return (1 << n) - 1
        if self.mode == "alt":
            return 0 if self.calls % 2 else (1 << n) - 1
        if self.mode == "low":
            return self.r.getrandbits(n) & 1
        return self.r.getrandbits(n)


_RS_GEN = (0xE0E040, 0x1C1C080, 0x3838100, 0x7070200, 0xE0E0009, 0x1C0C2412, 0x38086C24, 0x3090FC48, 0x21B1F890, 0x3F3F120)


def ref_rs1024_checksum(data):
    """SLIP-0039 RS1024 checksum (three 10-bit symbols) of the symbols `data` under the customisation string "shamir"; written from the
    specification, shares nothing with buidl.shamir."""
    chk = 1
    for v in list(b"shamir") + list(data) + [0, 0, 0]:
        b = chk >> 20
        chk = ((chk & 0xFFFFF) << 10) ^ v
        for i in range(10):
            if (b >> i) & 1:
                chk ^= _RS_GEN[i]
    chk ^= 1
    return [(chk >> 10 * (2 - i)) & 1023 for i in range(3)]


def ref_share_mnemonic(f):
    """SLIP-0039 share text for the header fields and value in f, as another implementation would write it: id(15) exponent(5) group index(4)
    group threshold-1(4) group count-1(4) member index(4) member threshold-1(4), the value left-padded with zero bits to a multiple of 10, checksum(30)."""
    bits = f["bits"]
    pad = (-bits) % 10
    head = (f["id"] << 5) | f["exp"]
    for x in (f["gi"], f["gt"] - 1, f["gc"] - 1, f["mi"], f["mt"] - 1):
        head = (head << 4) | x
    n_val = (bits + pad) // 10
    allb = (head << (bits + pad)) | f["value"]
    n = 4 + n_val
    idx = [(allb >> 10 * (n - 1 - i)) & 1023 for i in range(n)]
    W = words()
    return " ".join(W[i] for i in idx + ref_rs1024_checksum(idx))


def mutate_share(m, mut):
    ws = m.split()
    k = mut["kind"]
    W = words()
    if k == "words":
        r = plan_rng(mut["seed"], "cw")
        pos = r.sample(range(len(ws)), min(mut["n"], len(ws)))
        for p in pos:
            cur = W.index(ws[p])
            ws[p] = W[(cur + 1 + r.randrange(1023)) % 1024]
        return " ".join(ws)
    if k == "swap":
        a = mut["a"] % len(ws)
        b = mut["b"] % len(ws)
        ws[a], ws[b] = ws[b], ws[a]
        return " ".join(ws)
    if k == "truncate":
        return " ".join(ws[: max(1, len(ws) - 1 - mut["n"] % 5)])
    if k == "extend":
        return " ".join(ws + [W[mut["a"] % 1024]])
    if k == "unknown_word":
        ws[mut["a"] % len(ws)] = "zzzzzz"
        return " ".join(ws)
    raise ValueError(k)


def execute(plan, prop, trace):
    _TR[0] = trace
    tr = trace
    saved = bs.randbits
    try:
        return _execute(plan, tr)
    finally:
        bs.randbits = saved


def _execute(plan, tr):
    splits = []
    # ---- dealer: real generate_shares under the simulated RNG
    for si, sp in enumerate(plan["splits"]):
        ent = plan_rng(sp["eseed"], "ent").getrandbits(sp["bits"]).to_bytes(sp["bits"] // 8, "big")
        if sp.get("efill") == "zero":
            ent = bytes(sp["bits"] // 8)
        elif sp.get("efill") == "ff":
            ent = b"\xff" * (sp["bits"] // 8)
        mnemonic = bytes_to_mnemonic(ent, sp["bits"])
        rng = Rng(sp["rng"], tr)
        bs.randbits = rng
        if sp["rng"]["mode"] != "seeded":
            tr.fault("rng_" + sp["rng"]["mode"])
        pw = bytes.fromhex(sp["pass"])
        try:
            shares = ShareSet.generate_shares(mnemonic, sp["k"], sp["n"], passphrase=pw, exponent=sp["exp"])
        except Exception as e:
            tr.oracle("V1_split")
            fail("V1", "split_refused", f"generate_shares refused a {sp['k']}-of-{sp['n']} split of a {sp['bits']}-bit secret (exponent {sp['exp']}): {type(e).__name__}: {e}")
            continue
        tr.ev("dealer", "split", f"{sp['bits']}|{sp['k']}of{sp['n']}|e{sp['exp']}|{len(shares)}|rng={rng.calls}")
        # V5: stored share text round-trips; header fields are what was asked
        for x, s in enumerate(shares):
            tr.oracle("V5_share_roundtrip")
            o = Share.parse(s)
            if o.mnemonic() != s:
                fail("V5", "share_roundtrip", f"Share.parse(s).mnemonic() != s for share {x} of a {sp['k']}-of-{sp['n']} {sp['bits']}-bit split")
            else:
                # the custodian's wallet shows / logs / exports the same share object again: every export is the same text
                try:
                    again = [o.mnemonic(), (repr(o), o.mnemonic())[1], Share.parse(o.mnemonic()).mnemonic()]
                except Exception as e:
                    again = [f"{type(e).__name__}: {e}"]
                if any(a != s for a in again):
                    fail("V5", "share_reexport_differs", f"the 2nd/3rd export of one parsed share object (share {x} of a {sp['k']}-of-{sp['n']} {sp['bits']}-bit split) differs from the first")
            if (o.group_threshold, o.group_count, o.exponent, o.share_bit_length) != (sp["k"], sp["n"], sp["exp"], sp["bits"]):
                fail("V5", "share_header", f"share header {o.group_threshold}-of-{o.group_count} e{o.exponent} {o.share_bit_length} bits differs from the split parameters")
        expected_n = sp["n"]  # a k-of-n split hands out n shares, also for k = 1 (every single share then recovers)
        if len(shares) != expected_n or len(set(shares)) != len(shares):
            fail("V1", "share_count", f"{sp['k']}-of-{sp['n']} split produced {len(shares)} shares ({len(set(shares))} distinct)")
        hdr = tuple(shares[0].split()[:2]) + (sp["k"], sp["n"], sp["bits"])
        splits.append({"spec": sp, "mnemonic": mnemonic, "shares": shares, "pw": pw, "hdr": hdr, "ent": ent})
        tr.probe(f"k_class_{'1' if sp['k']==1 else 'eq_n' if sp['k']==sp['n'] else 'mid'}")
        tr.probe(f"bits_{sp['bits']}")
    if len(splits) == 2 and splits[0]["hdr"] == splits[1]["hdr"]:
        tr.probe("header_identical_splits")
    # V5: interpolation identities on the share points of this run: the polynomial through any k points of a k-of-n split takes, at
    # every further share index, that share's value, and at the x of one of the given points that point's own value
    for sp in splits[:1]:
        k_, n_ = sp["spec"]["k"], sp["spec"]["n"]
        if k_ >= 2:
            pts = []
            for t_ in sp["shares"]:
                o_ = Share.parse(t_)
                pts.append((o_.group_index, o_.bytes))
            base_pts = pts[:k_]
            tr.oracle("V5_interpolation")
            for (x_, y_) in pts:
                try:
                    got_ = ShareSet.interpolate(x_, base_pts)
                except Exception as e:
                    got_ = f"{type(e).__name__}: {e}"
                if got_ != y_:
                    fail("V5", "interpolation_identity" + ("_at_given_point" if (x_, y_) in base_pts else ""), f"interpolating the first {k_} share points of a {k_}-of-{n_} split at x={x_} "
                         f"({'one of the given points' if (x_, y_) in base_pts else 'another share index'}) does not give that share's value")
                    break
    # V5: encrypt/decrypt inverse on the values of this run (real code both ways, then compared with the input)
    for sp in splits[:1]:
        o = Share.parse(sp["shares"][0])
        tr.oracle("V5_crypt")
        enc = ShareSet.encrypt(sp["ent"], o.id, o.exponent, sp["pw"])
        dec = ShareSet([o]).decrypt(enc, sp["pw"])
        if dec != sp["ent"]:
            fail("V5", "decrypt_encrypt", f"decrypt(encrypt(x)) != x (id {o.id}, exponent {o.exponent}, passphrase {sp['pw'].hex()})")
        # HMAC zero-pads its key, so passphrases that differ only in trailing NUL bytes are the same key by construction
        if len(sp["pw"].rstrip(b"\x00")) and ShareSet([o]).decrypt(enc, b"") == sp["ent"]:
            fail("V5", "passphrase_ignored", "decryption with the empty passphrase recovered a secret encrypted under a non-empty one")

    # ---- arrivals and attempts
    collected = []  # (text, split, idx, quality) quality: 'genuine' | 'c<=3' | 'c>3' | 'junk'
    attempts = 0

    def attempt(label):
        nonlocal attempts
        if not collected:
            return
        attempts += 1
        tr.probe("attempts")
        texts = [c[0] for c in collected]
        genuine = [c for c in collected if c[3] == "genuine"]
        # membership is by share *text*: two splits made with a replayed RNG and the same secret are the same shares
        by_split = {}
        for c in genuine:
            for s_i, sp_ in enumerate(splits):
                if c[0] in sp_["shares"]:
                    by_split.setdefault(s_i, set()).add(c[0])
        only_genuine = len(genuine) == len(collected)
        no_dups = len({c[0] for c in collected}) == len(collected)
        single_split = any(all(c[0] in sp_["shares"] for c in collected) for sp_ in splits) if only_genuine else False
        # the recoverer types the passphrase of the split it is recovering: the split that holds every genuine share text handed in (a share
        # of a split made with a replayed RNG can be, word for word, a share of the other split too), else the first arrival's split
        own = [s_i for s_i, sp_ in enumerate(splits) if genuine and all(c[0] in sp_["shares"] for c in genuine)]
        pw_split = own[0] if own else collected[0][1]
        pw = splits[pw_split]["pw"] if plan.get("recover_pass") is None else bytes.fromhex(plan["recover_pass"])
        try:
            got = ShareSet.recover_mnemonic(texts, pw)
            outcome = "returned"
        except Exception as e:
            got = None
            outcome = "raised:" + type(e).__name__
        tr.ev("recoverer", "attempt", f"{label}|{len(collected)}|{outcome}")
        tr.state("att", len(collected), len(genuine), outcome, single_split, no_dups)
        if got is not None:
            tr.oracle("V2_V3_V4")
            tr.probe("returned")
            if any(c[3] == "c<=3" for c in collected):
                fail("V3", "corrupt_share_accepted", f"recover_mnemonic returned although a share with 1-3 substituted words was in the list ({len(collected)} shares)")
                return
            hdrs = {splits[c[1]]["hdr"] for c in collected}
            if len(hdrs) > 1:
                fail("V3", "mixed_splits_accepted", "recover_mnemonic returned from shares of splits with different identifier/threshold/count/length")
                return
            # shares of different splits with identical headers (identifier collision, here forced through the RNG seam): no single split
            # holds every genuine share text that was handed in -> the set is a mixture and must not be accepted, whatever it returns
            if only_genuine and not single_split and len(by_split) > 1:
                fail("V3", "mixed_same_header_splits_accepted", f"recover_mnemonic returned from a list mixing shares of {len(by_split)} different splits that carry the same identifier, threshold and count ({len(collected)} shares)")
                return
            # which split can this be?
            cands = [s for s in by_split if len(by_split[s]) >= splits[s]["spec"]["k"]]
            ok_pw = plan.get("recover_pass") is None
            if ok_pw and cands and all(splits[s_]["pw"].rstrip(b"\x00") != pw.rstrip(b"\x00") for s_ in cands):
                # every split whose threshold is met was encrypted under another passphrase than the one typed (ambiguous arrivals)
                ok_pw = False
            if ok_pw:
                if not any(got == splits[s]["mnemonic"] for s in range(len(splits))):
                    fail("V4", "wrong_secret", f"recover_mnemonic returned a mnemonic that is no split's original ({len(collected)} shares, qualities {[c[3] for c in collected]})")
                    return
                # several splits may share the same secret: the return is legitimate if ANY of them had its threshold of genuine shares
                hits_ = [s for s in range(len(splits)) if got == splits[s]["mnemonic"]]
                if not any(len(by_split.get(s, ())) >= splits[s]["spec"]["k"] for s in hits_):
                    s_hit = hits_[0]
                    fail("V2", "below_threshold_returned", f"recover_mnemonic returned the secret from {len(by_split.get(s_hit, ()))} distinct genuine shares, threshold is {splits[s_hit]['spec']['k']}")
                    return
            else:
                tr.probe("wrong_passphrase_returned")
                if any(got == sp["mnemonic"] for sp in splits) and pw.rstrip(b"\x00") not in [sp["pw"].rstrip(b"\x00") for sp in splits]:
                    fail("V5", "wrong_passphrase_recovers", "a wrong passphrase recovered the original mnemonic")
        else:
            tr.oracle("V1")
            tr.probe("raised")
            if only_genuine and no_dups and single_split:
                s = [s_i for s_i, sp_ in enumerate(splits) if all(c[0] in sp_["shares"] for c in collected)][0]
                if len(by_split[s]) >= splits[s]["spec"]["k"]:
                    fail("V1", "valid_subset_rejected", f"{len(by_split[s])} distinct genuine shares of a {splits[s]['spec']['k']}-of-{splits[s]['spec']['n']} split (order {[c[2] for c in collected]}) were rejected: {outcome}")

    for st in plan["steps"]:
        op = st["op"]
        if op == "arrive":
            s = st["split"]
            if s >= len(splits):
                continue
            sh = splits[s]["shares"]
            i = st["idx"] % len(sh)
            text = sh[i]
            q = "genuine"
            if st.get("fault"):
                tr.fault(st["fault"])
            mut = st.get("mut")
            if mut:
                t2 = mutate_share(text, mut)
                if t2 != text:
                    tr.fault("corrupt_" + mut["kind"] + (f"_{mut['n']}" if mut["kind"] == "words" else ""))
                    if mut["kind"] == "words":
                        q = "c<=3" if mut["n"] <= 3 else "c>3"
                    elif mut["kind"] == "swap":
                        # a swap changes at most two symbols -> within the guaranteed detection distance
                        q = "c<=3"
                    else:
                        q = "junk"
                    text = t2
            collected.append((text, s, i, q))
            tr.ev("custodian", "arrive", f"{s}|{i}|{q}")
            if st.get("try") and attempts < 8:
                attempt("mid")
        elif op == "attempt":
            if attempts < 8:
                attempt("explicit")
        elif op == "forget":
            if collected:
                collected.pop(st["which"] % len(collected))
                tr.ev("recoverer", "forget")
        elif op == "reuse":
            # one ShareSet object, several passphrases in a row: each result must equal a fresh object's result
            gen = [c for c in collected if c[3] == "genuine"]
            if not gen:
                continue
            s = gen[0][1]
            k = splits[s]["spec"]["k"]
            idxs = sorted({c[2] for c in gen if c[1] == s})
            if len(idxs) < k:
                continue
            use = [splits[s]["shares"][i] for i in idxs]
            objs = [Share.parse(t) for t in use]
            shared = ShareSet(objs)
            tr.fault("object_reuse")
            for ph in st["passes"]:
                pw = splits[s]["pw"] if ph is None else bytes.fromhex(ph)
                try:
                    a = shared.recover(pw)
                    b = ShareSet([Share.parse(t) for t in use]).recover(pw)
                except Exception as e:
                    fail("V1", "valid_subset_rejected", f"{len(use)} distinct genuine shares of a {k}-of-{splits[s]['spec']['n']} split were rejected by ShareSet.recover: {type(e).__name__}: {e}")
                    break
                tr.oracle("V5_reuse")
                tr.ev("recoverer", "reuse", f"{'right' if ph is None else 'other'}")
                if a != b:
                    fail("V5", "recover_depends_on_history", f"ShareSet.recover(passphrase) on a reused object differs from a fresh object (passphrase sequence {st['passes']})")
                if ph is None and a != splits[s]["ent"]:
                    fail("V4", "wrong_secret_reuse", "recover with the right passphrase on a reused object did not return the secret")
            # the share objects that went through recovery still export their own text
            tr.oracle("V5_export_after_recover")
            for o_, t_ in zip(objs, use):
                try:
                    if o_.mnemonic() != t_ or o_.mnemonic() != t_:
                        fail("V5", "share_export_after_recover_differs", "a share object exports another mnemonic after it was used in recover()")
                        break
                except Exception as e:
                    fail("V5", "share_export_after_recover_differs", f"exporting a share object after recover() raised {type(e).__name__}: {e}")
                    break
        elif op == "subst_all":
            # a custodian's stored share with every possible other word at one position (exhaustive over the 1023 alternatives),
            # optionally with a second/third fixed substitution elsewhere: the RS1024 checksum must reject each of them
            sidx = st["split"]
            if sidx >= len(splits):
                continue
            sh = splits[sidx]["shares"]
            base = sh[st["idx"] % len(sh)].split()
            W = words()
            pos = st["pos"] % len(base)
            extra = []
            r2 = plan_rng(st.get("seed", 0), "sa")
            for _ in range(st.get("extra", 0)):
                p2 = r2.randrange(len(base))
                if p2 != pos:
                    extra.append((p2, W[(W.index(base[p2]) + 1 + r2.randrange(1023)) % 1024]))
            tr.fault("corrupt_words_exhaustive_position")
            accepted = []
            for w_i in range(1024):
                if W[w_i] == base[pos]:
                    continue
                ws = list(base)
                ws[pos] = W[w_i]
                for p2, w2 in extra:
                    ws[p2] = w2
                tr.oracle("V3_checksum")
                try:
                    Share.parse(" ".join(ws))
                    accepted.append(W[w_i])
                except Exception:
                    pass
            tr.ev("custodian", "subst_all", f"{pos}|{len(extra)}|{len(accepted)}")
            tr.probe("exhaustive_positions")
            if accepted:
                where = "checksum_word" if pos >= len(base) - 3 else "data_word"
                fail("V3", f"checksum_accepts_{1 + len(extra)}_word_substitution_{where}", f"Share.parse accepts {len(accepted)} of the 1023 single-word substitutions at word {pos} of a {len(base)}-word share"
                     f"{' (plus ' + str(len(extra)) + ' other substituted words)' if extra else ''}, e.g. '{accepted[0]}' for '{base[pos]}'")
        elif op == "foreign_share":
            # a share written by another implementation: any header the format allows (two-level group/member fields included), any value
            f = st["fields"]
            text = ref_share_mnemonic(f)
            tr.fault("foreign_implementation_shares")
            tr.oracle("V5_foreign_share_roundtrip")
            tr.probe("foreign_shares")
            tr.probe("foreign_share_" + ("member_fields_differ" if f["mi"] != f["mt"] - 1 else "member_fields_equal"))
            tr.ev("custodian", "foreign_share", f"{f['bits']}|{f['gi']}|{f['gt']}of{f['gc']}|{f['mi']}|{f['mt']}|e{f['exp']}")
            try:
                o = Share.parse(text)
            except Exception as e:
                fail("V5", "foreign_share_rejected", f"Share.parse refused a well-formed share (group {f['gi']} of a {f['gt']}-of-{f['gc']}, member index {f['mi']}, member threshold {f['mt']}, {f['bits']} bits): {type(e).__name__}: {e}")
                continue
            got = {"bits": o.share_bit_length, "id": o.id, "exp": o.exponent, "gi": o.group_index, "gt": o.group_threshold, "gc": o.group_count, "mi": o.member_index, "mt": o.member_threshold, "value": o.value}
            if got != f:
                fail("V5", "foreign_share_fields", f"Share.parse read {got} from the share text of {f}")
                continue
            try:
                outs = [o.mnemonic(), Share(f["bits"], f["id"], f["exp"], f["gi"], f["gt"], f["gc"], f["mi"], f["mt"], f["value"]).mnemonic()]
            except Exception as e:
                outs = [f"{type(e).__name__}: {e}"]
            if any(x != text for x in outs):
                fail("V5", "share_roundtrip_foreign_header", f"a share with group index {f['gi']}, {f['gt']}-of-{f['gc']}, member index {f['mi']}, member threshold {f['mt']} does not encode back to its own text"
                     f" ({'parsed object' if outs[0] != text else 'object built from the fields'})")
        elif op == "vector":
            vec = vectors()[st["case"] % len(vectors())]
            name, shares, expected = vec
            for m_ in shares:
                tr.oracle("V5_vector_roundtrip")
                try:
                    back = Share.parse(m_).mnemonic()
                except Exception:
                    continue  # refusal of a published share is judged by V1_vector below
                if back != m_:
                    fail("V5", "share_roundtrip_vector", f"a share of the published vector '{name}' does not encode back to its own text")
                    break
            order = list(range(len(shares)))
            plan_rng(st["seed"], "vo").shuffle(order)
            texts = [shares[i] for i in order]
            tr.fault("foreign_implementation_shares")
            tr.oracle("V1_vector")
            try:
                got = ShareSet([Share.parse(m) for m in texts]).recover(b"TREZOR").hex()
            except Exception as e:
                fail("V1", "vector_rejected", f"published vector '{name}' in order {order} raised {type(e).__name__}: {e}")
                continue
            tr.ev("recoverer", "vector", f"{st['case']}|{order}")
            if got != expected:
                fail("V4", "vector_wrong_secret", f"published vector '{name}' in order {order} recovered {got}, expected {expected}")
            if st.get("drop") and len(texts) > 1:
                # one share fewer than published (vectors carry exactly the threshold): must not return the secret
                less = texts[:-1]
                try:
                    g2 = ShareSet([Share.parse(m) for m in less]).recover(b"TREZOR").hex()
                except Exception:
                    g2 = None
                tr.oracle("V2_vector")
                if g2 == expected:
                    fail("V2", "vector_below_threshold", f"published vector '{name}' recovered from one share fewer than the threshold")
    if plan.get("final_attempt", True) and attempts < 9:
        attempt("final")
    return {"splits": [{"bits": s["spec"]["bits"], "k": s["spec"]["k"], "n": s["spec"]["n"], "exp": s["spec"]["exp"], "rng": s["spec"]["rng"]["mode"]} for s in splits],
            "arrivals": [(c[1], c[2], c[3]) for c in collected][:20], "attempts": attempts}


# ------------------------------------------------------------------------------------------------


def gen_split(ch, tier):
    m = ch.randrange(10)
    if m < 5:
        n = ch.randrange(1, 7)
    elif m < 8:
        n = ch.randrange(1, 17)
    else:
        n = ch.choice([1, 2, 15, 16])
    k = ch.choice([1, n, max(1, n - 1), 2 if n >= 2 else 1, ch.randrange(1, n + 1), ch.randrange(1, n + 1)])
    k = min(k, n)
    mode = ch.weighted([("seeded", 6), ("const0", 1), ("const255", 1), ("alt", 1), ("low", 1)])
    pw = ch.choice(["", "", "54455354", ch.bytes(ch.randrange(1, 12)).hex(), "00", "ff" * 3])
    return {"bits": ch.choice([128, 128, 256]), "eseed": ch.randrange(1 << 30), "efill": ch.choice(["rand"] * 6 + ["zero", "ff"]), "k": k, "n": n, "pass": pw,
            "exp": ch.choice([0, 0, 0, 1, 2]), "rng": {"mode": mode, "seed": ch.randrange(1 << 30)}}


def gen_foreign(ch):
    gc = ch.choice([1, 2, 3, 5, 16, ch.randrange(1, 17)])
    bits = ch.choice([128, 128, 256])
    return {"op": "foreign_share", "fields": {"bits": bits, "id": ch.choice([0, 0x7FFF, ch.randrange(1 << 15)]), "exp": ch.choice([0, 1, 2, 31, ch.randrange(32)]), "gi": ch.choice([0, 15, ch.randrange(16)]),
                                              "gt": ch.randrange(1, gc + 1), "gc": gc, "mi": ch.choice([0, 0, 15, ch.randrange(16)]), "mt": ch.choice([1, 1, 16, ch.randrange(1, 17)]),
                                              "value": ch.choice([0, (1 << bits) - 1, ch.getrandbits(bits)])}}


def gen_mut(ch):
    k = ch.weighted([("words", 6), ("swap", 1), ("truncate", 1), ("extend", 1), ("unknown_word", 1)])
    m = {"kind": k, "seed": ch.randrange(1 << 30), "a": ch.randrange(1000), "b": ch.randrange(1000), "n": ch.choice([1, 1, 2, 3, 3, 4, 6])}
    return m


def generate(ch, tier, prop):
    if ch.chance(0.06):
        return {"splits": [], "steps": [gen_foreign(ch) for _ in range(ch.randrange(1, 4))], "final_attempt": False}
    if ch.chance(0.08):
        return {"splits": [], "steps": [{"op": "vector", "case": ch.randrange(10), "seed": ch.randrange(1 << 30), "drop": ch.chance(0.5)} for _ in range(ch.randrange(1, 3))], "final_attempt": False}
    splits = [gen_split(ch, tier)]
    fault_free = ch.chance(0.3)
    kinds = [] if fault_free else [x for x in ["loss", "dup", "corrupt", "mix", "reuse", "forget"] if ch.chance(0.45)]
    if "mix" in kinds:
        s2 = gen_split(ch, tier)
        r = ch.randrange(4)
        if r == 0:
            # replayed RNG: same identifier and same random shares, same parameters, different secret
            s2 = dict(splits[0], eseed=splits[0]["eseed"] + 1)
        elif r == 1:
            s2 = dict(s2, bits=splits[0]["bits"], k=splits[0]["k"], n=splits[0]["n"], exp=splits[0]["exp"])
        splits.append(s2)
    sp = splits[0]
    k, n = sp["k"], sp["n"]
    avail = n
    # how many custodians answer: around the threshold
    if "loss" in kinds:
        cnt = ch.choice([max(0, k - 1), k, min(avail, k + 1), ch.randrange(0, avail + 1)])
        tag = "loss"
    else:
        cnt = ch.choice([k, min(avail, k + 1), avail, avail])
        tag = None
    cnt = min(cnt, avail)
    who = ch.sample(range(avail), cnt)
    steps = []
    for i in who:
        st = {"op": "arrive", "split": 0, "idx": i}
        if tag and cnt < avail:
            st["fault"] = "loss"
        if "corrupt" in kinds and ch.chance(0.25):
            st["mut"] = gen_mut(ch)
        if ch.chance(0.3):
            st["try"] = True
        steps.append(st)
        if "dup" in kinds and ch.chance(0.25):
            steps.append({"op": "arrive", "split": 0, "idx": i, "fault": "dup"})
    if "mix" in kinds:
        for _ in range(ch.randrange(1, 3)):
            steps.insert(ch.randrange(0, len(steps) + 1), {"op": "arrive", "split": 1, "idx": ch.randrange(0, 16), "fault": "mix", "try": ch.chance(0.3)})
    if "forget" in kinds and steps:
        steps.insert(ch.randrange(1, len(steps) + 1), {"op": "forget", "which": ch.randrange(16)})
    if "reuse" in kinds:
        other = ch.bytes(ch.randrange(0, 6)).hex()
        seqs = [[other, None], [None, other], [other, None, other], [None, None], [other, other + "00", None]]
        steps.append({"op": "reuse", "passes": ch.choice(seqs)})
    if ch.chance(0.3):
        steps.insert(ch.randrange(0, len(steps) + 1), {"op": "attempt"})
    if "corrupt" in kinds and ch.chance(0.15):
        steps.append({"op": "subst_all", "split": 0, "idx": ch.randrange(16), "pos": ch.randrange(40), "extra": ch.choice([0, 0, 1, 2]), "seed": ch.randrange(1 << 30)})
    plan = {"splits": splits, "steps": steps}
    if ch.chance(0.1):
        plan["recover_pass"] = ch.bytes(ch.randrange(0, 5)).hex()
    return plan


def enumerate_plans(tier, prop, seed):
    # every (k, n) pair (quick: n <= 8 plus a diagonal sample), subset sizes k-1, k, k+1, n in seeded order
    pairs = [(k, n) for n in range(1, 17) for k in range(1, n + 1)]
    if tier == "quick":
        pairs = [(k, n) for (k, n) in pairs if n <= 7 or k in (1, 2, n) or (k + n + seed) % 5 == 0]
    r = random.Random(1234 + seed)
    for (k, n) in pairs:
        avail = n
        for size in sorted({max(0, k - 1), k, min(avail, k + 1), avail}):
            if size > avail:
                continue
            reps = 1 if tier == "quick" else 3
            for rep in range(reps):
                who = r.sample(range(avail), size)
                yield {"splits": [{"bits": 128 if (k + n + rep) % 3 else 256, "eseed": r.randrange(1 << 30), "k": k, "n": n, "pass": "", "exp": 0, "rng": {"mode": "seeded", "seed": r.randrange(1 << 30)}}],
                       "steps": [{"op": "arrive", "split": 0, "idx": i} for i in who], "enum": "kn"}
    # published vectors in every rotation
    for case in range(10):
        for s in range(3 if tier == "quick" else 12):
            yield {"splits": [], "steps": [{"op": "vector", "case": case, "seed": s + seed, "drop": True}], "final_attempt": False, "enum": "vectors"}
    # every position x every word (exhaustive single substitutions) of a 128-bit and a 256-bit share; thorough: also with 1-2 further substitutions
    for bits, nwords in ((128, 20), (256, 33)):
        for pos in range(nwords):
            for extra in ((0,) if tier == "quick" else (0, 1, 2)):
                yield {"splits": [{"bits": bits, "eseed": 91 + seed, "k": 2, "n": 3, "pass": "", "exp": 0, "rng": {"mode": "seeded", "seed": 17 + seed}}],
                       "steps": [{"op": "subst_all", "split": 0, "idx": pos % 3, "pos": pos, "extra": extra, "seed": pos * 31 + seed}], "final_attempt": False, "enum": "subst-exhaustive"}
    # 1..3 word substitutions at sampled positions of one share
    for nw in (1, 2, 3):
        for s in range(20 if tier == "quick" else 300):
            yield {"splits": [{"bits": 128 if s % 2 else 256, "eseed": 77 + seed, "k": 2, "n": 3, "pass": "", "exp": 0, "rng": {"mode": "seeded", "seed": 5 + seed}}],
                   "steps": [{"op": "arrive", "split": 0, "idx": 0}, {"op": "arrive", "split": 0, "idx": 1, "mut": {"kind": "words", "seed": s * 7 + nw + seed, "n": nw, "a": 0, "b": 0}}], "enum": "subst"}


    # shares written by another implementation: every (member index, member threshold) pair, group fields rotating through their ranges
    for mi in range(16):
        steps = []
        for mt in range(1, 17):
            gc = 1 + (mi * 5 + mt * 3 + seed) % 16
            bits = 128 if (mi + mt) % 2 else 256
            steps.append({"op": "foreign_share", "fields": {"bits": bits, "id": r.randrange(1 << 15), "exp": (mi + mt) % 32, "gi": (mi * 7 + mt) % 16, "gt": 1 + (mi + mt) % gc, "gc": gc, "mi": mi, "mt": mt,
                                                            "value": r.getrandbits(bits)}})
        yield {"splits": [], "steps": steps, "final_attempt": False, "enum": "foreign-headers"}


def shrink(plan):
    for i, st in enumerate(plan["steps"]):
        if st.get("mut"):
            p = dict(plan, steps=[dict(x) for x in plan["steps"]])
            del p["steps"][i]["mut"]
            yield p
        if st.get("try"):
            p = dict(plan, steps=[dict(x) for x in plan["steps"]])
            del p["steps"][i]["try"]
            yield p
    if len(plan["splits"]) > 1:
        yield dict(plan, splits=plan["splits"][:1], steps=[s for s in plan["steps"] if s.get("split", 0) == 0])
    for si, sp in enumerate(plan["splits"]):
        if sp["exp"] or sp["pass"] or sp["bits"] == 256 or sp["rng"]["mode"] != "seeded":
            q = dict(sp, exp=0)
            yield dict(plan, splits=plan["splits"][:si] + [q] + plan["splits"][si + 1 :])
            q = dict(sp, bits=128)
            yield dict(plan, splits=plan["splits"][:si] + [q] + plan["splits"][si + 1 :])
            q = dict(sp, rng=dict(sp["rng"], mode="seeded"))
            yield dict(plan, splits=plan["splits"][:si] + [q] + plan["splits"][si + 1 :])
