"""W-SIGHASH: one transaction object and a history of queries, edits, signs, verifies, clones, re-parses (C05, C06).

The "node" is one buidl Tx object; its hidden state is the digest midstates, Script.raw, witness lists.
The reference model is a plain-data mirror (ref.txmodel) + ref.sighash; every operation is applied to both.

Real code: Tx.sig_hash_legacy/bip143/bip341/sig_hash, hash_prevouts..sha_outputs, sign_input/sign_p2pkh/
sign_p2wpkh/sign_p2sh_p2wpkh/sign_p2tr_keypath, get_sig_*, TxIn.finalize_*, initialize/finalize_p2tr_multisig,
verify_input, clone, serialize/parse, Script.evaluate, op_checksig*, op_checkmultisig, Witness, TapLeaf, ControlBlock.
Stub: key pool (fixed secrets), the spent outputs.
"""
from io import BytesIO

from buidl.ecc import PrivateKey, S256Point
from buidl.script import RedeemScript, Script, ScriptPubKey, WitnessScript
from buidl.taproot import ControlBlock, MultiSigTapScript, TapLeaf, TapRootMultiSig
from buidl.timelock import Locktime, Sequence
from buidl.tx import Tx, TxFetcher, TxIn, TxOut
from buidl.witness import Witness

from ref import secp, sighash as rs, stdverify, txmodel as tm
from sim.core import SimDeadlock, plan_rng

WORLD = "sighash"
HANG_S = 60
TIME_UNIT = "logical time: operations applied to the transaction object (no timers in this world)"

COMPONENTS = {
    "real": ["buidl.tx.Tx digest methods and midstate caches", "Tx.sign_* / get_sig_* / TxIn.finalize_* / initialize+finalize_p2tr_multisig", "Tx.verify_input -> Script.evaluate -> op_checksig*/op_checkmultisig",
             "Tx.clone / serialize / parse", "buidl.witness.Witness, buidl.taproot.TapLeaf/ControlBlock/MultiSigTapScript", "buidl.pecc ECDSA/Schnorr (as used by sign/verify)", "TxIn.value()/script_pubkey() lookups (fetched plans)"],
    "stub": ["key pool (8 fixed secrets)", "spent outputs: handed in (_value/_script_pubkey preset) or, in 'fetched' plans, looked up by the object in TxFetcher.cache filled with reference funding transactions", "urlopen seam (no explorer: every request fails)"],
}
LEVEL = {"C05": "exploration", "C06": "exploration"}
RULE = {
    "C05": "plans drawn from Chooser(VERIF_SEED/sighash/C05/index): a transaction with 1-6 inputs of kinds {p2pkh, p2sh multisig, p2wpkh, p2sh-p2wpkh, p2wsh multisig, p2sh-p2wsh multisig, p2tr key path, "
    "p2tr script path} x annex on/off and 0-6 outputs, then up to 40 operations: digest queries (3 algorithms, direct and through the dispatcher, hash types 0,1,2,3,0x81,0x82,0x83) interleaved with edits "
    "(outputs, inputs, sequences, outpoints, locktime, version, spent amounts/scripts, annex, witness items), reverts, clone and re-parse. Every query is compared with ref/sighash on the mirror (H1) and "
    "with the same query on a freshly re-parsed copy (H2). Non-trivial = at least one query after at least one edit; distinct = distinct event-log digest.",
    "C06": "plans drawn from Chooser(VERIF_SEED/sighash/C06/index): same transaction generator with real keys; operations sign(i) through the library's helpers, verify(i) (also repeated back-to-back), edits of "
    "committed and uncommitted fields, reverts, clone, re-parse. verify_input must be True exactly when the input still carries its signature and the current reference digest equals the one signed (H3), "
    "and every freshly signed input must verify and its signatures must verify under ref/secp over the reference digest (H4). Non-trivial = at least one verify after a sign; distinct = distinct event-log digest.",
}
ASSUMPTIONS = {
    "C05": ["ref/sighash.py implements the original algorithm, BIP143 and BIP341/342 (self-tested on the BIPs' published digests and signatures)",
            "spent outputs are preset on the inputs (no fetcher in this world)", "OP_CODESEPARATOR and non-standard script codes are not generated"],
    "C06": ["only the history/state clauses of C06 are claimed: the forgery catalogue (crafted scriptSigs, foreign keys, dropped signatures...) is pure input mutation and not simulated",
            "ref/secp.py ECDSA/BIP340 verification and ref/sighash.py are correct (self-tested on published vectors)", "a False verdict and an exception are both 'invalid'"],
}
TIERS = {
    "C05": {"quick": {"runs": 12000, "chunk": 150, "per_run_timeout": 120, "wall_cap": 300}, "thorough": {"runs": 300000, "chunk": 300, "per_run_timeout": 300, "wall_cap": 2400}},
    "C06": {"quick": {"runs": 700, "chunk": 8, "per_run_timeout": 300, "wall_cap": 400, "minimise_budget": 240}, "thorough": {"runs": 12000, "chunk": 10, "per_run_timeout": 600, "wall_cap": 2400, "minimise_budget": 400}},
}

KINDS = ["p2pkh", "p2sh_ms", "p2wpkh", "p2sh_p2wpkh", "p2wsh_ms", "p2sh_p2wsh_ms", "p2tr_key", "p2tr_script"]
HASH_TYPES = [1, 2, 3, 0x81, 0x82, 0x83]
SECRETS = [int.from_bytes(tm.sha256(b"verif-key-%d" % i), "big") % (secp.N - 1) + 1 for i in range(8)]

_TR = [None]
_PRIV = {}
_PUB = {}


def fail(prop, oracle, detail, msg):
    _TR[0].fail(prop, oracle, detail, msg)


def nontrivial(res):
    p = res["probes"]
    return (p.get("query_after_edit", 0) > 0) or (p.get("verify_after_sign", 0) > 0) or (p.get("transmissions", 0) > 0) or (p.get("refsigned", 0) > 0)


def priv(k, unc=False):
    """library private key of pool key k; unc: the holder uses the uncompressed SEC form of the public key (legacy outputs only)"""
    if (k, unc) not in _PRIV:
        _PRIV[(k, unc)] = PrivateKey(SECRETS[k], compressed=not unc)
    return _PRIV[(k, unc)]


def pub(k):
    """reference public key (affine) of pool key k"""
    if k not in _PUB:
        _PUB[k] = secp.mul(SECRETS[k])
    return _PUB[k]


def lib_script(b, cls=Script):
    return cls.parse(BytesIO(tm.compact_size(len(b)) + b))


DUMMY_DER = bytes.fromhex("3044022000112233445566778899aabbccddeeff00112233445566778899aabbccddeeff022000112233445566778899aabbccddeeff00112233445566778899aabbccddeeff") + b"\x01"
DUMMY_SCHNORR = bytes(range(64))


class Inp:
    """Model-side description of one input."""

    def __init__(self, spec, n):
        self.spec = dict(spec)
        self.funding = None  # reference model of the funding transaction when the object looks its spent output up itself
        self.kind = spec["kind"]
        self.keys = spec["keys"]
        self.m = spec.get("m", 1)
        self.amount = spec["amount"]
        self.annex = bytes.fromhex(spec["annex"]) if spec.get("annex") else None
        self.signed = None  # dict describing what was signed
        k = self.kind
        # uncompressed public keys: legal in legacy outputs only (BIP143 policy forbids them in witness programs)
        self.unc = bool(spec.get("unc")) and k in ("p2pkh", "p2sh_ms")
        pks = self.pks()
        self.redeem = None
        self.wscript = None
        self.leaf_script = None
        self.control = None
        if k == "p2pkh":
            self.spk = tm.spk_p2pkh(tm.hash160(pks[0]))
        elif k == "p2wpkh":
            self.spk = tm.spk_p2wpkh(tm.hash160(pks[0]))
        elif k == "p2sh_p2wpkh":
            self.redeem = tm.spk_p2wpkh(tm.hash160(pks[0]))
            self.spk = tm.spk_p2sh(tm.hash160(self.redeem))
        elif k == "p2sh_ms":
            self.redeem = tm.multisig_script(self.m, pks)
            self.spk = tm.spk_p2sh(tm.hash160(self.redeem))
        elif k == "p2wsh_ms":
            self.wscript = tm.multisig_script(self.m, pks)
            self.spk = tm.spk_p2wsh(tm.sha256(self.wscript))
        elif k == "p2sh_p2wsh_ms":
            self.wscript = tm.multisig_script(self.m, pks)
            self.redeem = tm.spk_p2wsh(tm.sha256(self.wscript))
            self.spk = tm.spk_p2sh(tm.hash160(self.redeem))
        elif k == "p2tr_key":
            q = secp.taproot_tweak_pubkey(secp.xonly(pub(self.keys[0])), b"")
            self.spk = tm.spk_p2tr(secp.xonly(q))
        elif k == "p2tr_script":
            xs = sorted(secp.xonly(pub(x)) for x in self.keys)
            # BIP342 k-of-n: <pk1> CHECKSIG <pk2> CHECKSIGADD ... <k> NUMEQUAL   (single key: <pk> CHECKSIG)
            sc = tm.push(xs[0]) + b"\xac"
            if len(xs) > 1:
                for x in xs[1:]:
                    sc += tm.push(x) + b"\xba"
                sc += bytes([tm.op_n(self.m), 0x87])
            self.leaf_script = sc
            self.leaf_hash = rs.tapleaf_hash(sc)
            internal = pub(spec["internal"])
            self.internal_x = secp.xonly(internal)
            q = secp.taproot_tweak_pubkey(self.internal_x, self.leaf_hash)
            self.spk = tm.spk_p2tr(secp.xonly(q))
            self.control = bytes([0xC0 + (q[1] & 1)]) + self.internal_x
        else:
            raise ValueError(k)
        self.spk_at_creation = self.spk

    def pks(self):
        return [secp.sec(pub(x), compressed=not self.unc) for x in self.keys]

    def script_code(self):
        k = self.kind
        if k == "p2pkh":
            return self.spk
        if k == "p2sh_ms":
            return self.redeem
        if k in ("p2wpkh",):
            return tm.spk_p2pkh(self.spk[2:22])
        if k == "p2sh_p2wpkh":
            return tm.spk_p2pkh(self.redeem[2:22])
        if k in ("p2wsh_ms", "p2sh_p2wsh_ms"):
            return self.wscript
        return None

    def algo(self):
        if self.kind in ("p2pkh", "p2sh_ms"):
            return "legacy"
        if self.kind in ("p2tr_key", "p2tr_script"):
            return "bip341"
        return "bip143"


class World:
    def __init__(self, plan, prop, tr):
        self.plan = plan
        self.prop = prop
        self.tr = tr
        self.inps = []
        self.model = {"version": plan["version"], "ins": [], "outs": [], "locktime": plan["locktime"]}
        lib_ins = []
        for k, spec in enumerate(plan["inputs"]):
            lib_ins.append(self.make_input(spec))
        lib_outs = []
        for o in plan["outputs"]:
            spk = bytes.fromhex(o["spk"])
            self.model["outs"].append({"amount": o["amount"], "spk": spk})
            lib_outs.append(TxOut(o["amount"], lib_script(spk, ScriptPubKey)))
        self.tx = Tx(plan["version"], lib_ins, lib_outs, plan["locktime"], network="mainnet", segwit=True)
        self.undo = []
        self.edits = 0
        self.signs = 0

    # ---------------------------------------------------------------- construction
    def make_input(self, spec):
        inp = Inp(spec, len(self.inps))
        txid = bytes.fromhex(spec["txid"])
        vout = spec["vout"]
        if self.plan.get("fetched"):
            # the spent outputs are not handed to the object: it looks them up itself (fetcher cache = the wallet's transaction store).
            # The funding transaction has three outputs to the same script with different amounts; the input spends one of them.
            vout = spec["vout"] % 3
            outs = [{"amount": inp.amount + 1000 * (j - vout) if inp.amount + 1000 * (j - vout) >= 0 else inp.amount + 1000 * j + 7, "spk": inp.spk} for j in range(3)]
            outs[vout]["amount"] = inp.amount
            inp.funding = {"version": 2, "ins": [{"txid": txid, "vout": 0, "script_sig": b"\x51", "sequence": 0xFFFFFFFF, "witness": []}], "outs": outs, "locktime": 0}
            txid = tm.txid(inp.funding)
            TxFetcher.cache[txid.hex()] = Tx.parse(BytesIO(tm.ser_tx(inp.funding)), network="mainnet")
        self.model["ins"].append({"txid": txid, "vout": vout, "script_sig": b"", "sequence": spec["sequence"], "witness": []})
        self.inps.append(inp)
        ti = TxIn(txid, vout, None, spec["sequence"])
        if inp.funding is None:
            ti._value = inp.amount
            ti._script_pubkey = lib_script(inp.spk, ScriptPubKey)
        self.dress(ti, inp)
        return ti

    def hand_in(self, i):
        """From here on the spent output of input i is handed to the object from outside (as PSBT code does), not looked up by it:
        both values are set, they are not tied to an outpoint, and the model stops following the funding transaction."""
        inp, ti = self.inps[i], self.tx.tx_ins[i]
        inp.funding = None
        ti._value = inp.amount
        ti._value_outpoint = None
        ti._script_pubkey = lib_script(inp.spk, ScriptPubKey)
        ti._script_pubkey_outpoint = None

    def dress(self, ti, inp):
        """Put the input in the shape it has at verification time, with placeholder signatures, using the library's finalisers."""
        k = inp.kind
        pks = inp.pks()
        if k == "p2pkh":
            ti.finalize_p2pkh(DUMMY_DER, pks[0])
        elif k == "p2wpkh":
            ti.finalize_p2wpkh(DUMMY_DER, pks[0])
        elif k == "p2sh_p2wpkh":
            ti.finalize_p2wpkh(DUMMY_DER, pks[0], lib_script(inp.redeem, RedeemScript))
        elif k == "p2sh_ms":
            ti.finalize_p2sh_multisig([DUMMY_DER] * inp.m, lib_script(inp.redeem, RedeemScript))
        elif k == "p2wsh_ms":
            ti.finalize_p2wsh_multisig([DUMMY_DER] * inp.m, lib_script(inp.wscript, WitnessScript))
        elif k == "p2sh_p2wsh_ms":
            ti.finalize_p2sh_p2wsh_multisig([DUMMY_DER] * inp.m, lib_script(inp.wscript, WitnessScript))
        elif k == "p2tr_key":
            ti.finalize_p2tr_keypath(DUMMY_SCHNORR)
        elif k == "p2tr_script":
            ti.witness = Witness([DUMMY_SCHNORR] * len(inp.keys) + [inp.leaf_script, inp.control])
        if inp.annex is not None:
            ti.witness.items.append(inp.annex)

    # ---------------------------------------------------------------- reference digests
    def spent(self):
        return [(i.amount, i.spk) for i in self.inps]

    def ref_digest(self, idx, algo, ht, inp=None, ext=None):
        inp = inp or self.inps[idx]
        if algo == "legacy":
            return rs.legacy(self.model, idx, inp.script_code() if inp.script_code() is not None else inp.spk, ht)
        if algo == "bip143":
            sc = inp.script_code()
            return rs.bip143(self.model, idx, sc, inp.amount, ht)
        if algo == "bip341":
            if ext is None:
                ext = 1 if inp.kind == "p2tr_script" else 0
            return rs.bip341(self.model, idx, self.spent(), ht, annex=inp.annex, leaf_hash=inp.leaf_hash if ext else None)
        raise ValueError(algo)

    # ---------------------------------------------------------------- library queries
    def lib_query(self, tx, idx, algo, ht, via, inp):
        """Returns 32 bytes, or ('raised', name)."""
        try:
            if via == "dispatch":
                r = tx.sig_hash(idx, ht)
            elif algo == "legacy":
                rd = lib_script(inp.redeem, RedeemScript) if inp.kind == "p2sh_ms" else None
                r = tx.sig_hash_legacy(idx, redeem_script=rd, hash_type=ht)
            elif algo == "bip143":
                rd = lib_script(inp.redeem, RedeemScript) if inp.kind == "p2sh_p2wpkh" else None
                ws = lib_script(inp.wscript, WitnessScript) if inp.wscript is not None else None
                r = tx.sig_hash_bip143(idx, redeem_script=rd, witness_script=ws, hash_type=ht)
            else:
                r = tx.sig_hash_bip341(idx, ext_flag=1 if inp.kind == "p2tr_script" else 0, hash_type=ht)
        except SimDeadlock:
            raise
        except Exception as e:
            return ("raised", type(e).__name__ + ":" + str(e)[:80])
        if isinstance(r, int):
            return r.to_bytes(32, "big")
        return r

    def fresh_copy(self):
        """Serialise, parse, re-attach spent outputs: everything but caches survives (the 'restart with durable state only')."""
        raw = self.tx.serialize()
        t2 = Tx.parse(BytesIO(raw), network=self.tx.network)
        for a, b, inp in zip(self.tx.tx_ins, t2.tx_ins, self.inps):
            if inp.funding is not None and inp.spk == inp.spk_at_creation and inp.amount == inp.funding["outs"][b.prev_index % 3]["amount"]:
                continue  # looked up by the fresh object itself
            b._value = inp.amount
            b._script_pubkey = lib_script(inp.spk, ScriptPubKey)
        return t2

    # ---------------------------------------------------------------- operations
    def op_query(self, st):
        tr = self.tr
        if not self.inps:
            return
        idx = st["i"] % len(self.inps)
        inp = self.inps[idx]
        via = st.get("via", "direct")
        algo = st.get("algo") or inp.algo()
        if via == "dispatch":
            algo = inp.algo()
        ht = st["ht"]
        algo = inp.algo()  # the algorithm that applies to this input (foreign algorithms on an input are not meaningful queries)
        if algo != "bip341" and ht == 0:
            ht = 1
        want = self.ref_digest(idx, algo, ht)
        got = self.lib_query(self.tx, idx, algo, ht, via, inp)
        tr.oracle("H1")
        tr.ev("tx", "query", f"{idx}|{inp.kind}|{algo}|{ht:#x}|{via}")
        if self.edits:
            tr.probe("query_after_edit")
        tr.probe(f"q_{algo}_{ht:#x}")
        tr.state("q", algo, ht, inp.kind, via, inp.annex is not None, min(self.edits, 3))
        label = f"{algo}/ht={ht:#04x}" + ("/dispatch" if via == "dispatch" else "") + ("/annex" if inp.annex is not None and algo == "bip341" else "")
        # H2 first: history independence (library against itself on a fresh copy)
        fresh = self.lib_query(self.fresh_copy(), idx, algo, ht, via, inp)
        tr.oracle("H2")
        if fresh != got:
            fail("C05", "H2", f"{algo}", f"digest of input {idx} ({inp.kind}, {label}) on the history object differs from the same query on a freshly re-parsed copy: "
                 f"{got.hex() if isinstance(got, bytes) else got} vs {fresh.hex() if isinstance(fresh, bytes) else fresh} after {self.edits} edits")
            got = fresh  # continue with the specification comparison on the fresh answer
        if want is None:
            # specification: undefined (taproot SINGLE without matching output) -> must not produce a digest
            if isinstance(got, bytes):
                fail("C05", "H1", label + "/undefined", f"specification defines no signature message (SIGHASH_SINGLE without matching output) but the library returned {got.hex()}")
            return
        if isinstance(got, tuple):
            fail("C05", "H1", label + "/raised", f"digest query for input {idx} ({inp.kind}) raised {got[1]}; specification digest is {want.hex()}")
            return
        if got != want:
            single_oob = (ht & 3) == 3 and idx >= len(self.model["outs"])
            fail("C05", "H1", label + ("/single_oob" if single_oob else ""), f"input {idx} ({inp.kind}) of a {len(self.inps)}-in/{len(self.model['outs'])}-out tx: library {got.hex()} != specification {want.hex()}")

    def apply_edit(self, e, record=True):
        """Apply an edit to both the library object and the mirror. Returns the inverse edit (or None if not applicable)."""
        tx, m = self.tx, self.model
        k = e["e"]
        inv = None
        if k == "out_amount":
            if not m["outs"]:
                return None
            j = e["j"] % len(m["outs"])
            inv = {"e": "out_amount", "j": j, "v": m["outs"][j]["amount"]}
            m["outs"][j]["amount"] = e["v"]
            tx.tx_outs[j].amount = e["v"]
        elif k == "out_script":
            if not m["outs"]:
                return None
            j = e["j"] % len(m["outs"])
            inv = {"e": "out_script", "j": j, "spk": m["outs"][j]["spk"].hex()}
            m["outs"][j]["spk"] = bytes.fromhex(e["spk"])
            tx.tx_outs[j].script_pubkey = lib_script(bytes.fromhex(e["spk"]), ScriptPubKey)
        elif k == "out_append":
            if len(m["outs"]) >= 8:
                return None
            m["outs"].append({"amount": e["v"], "spk": bytes.fromhex(e["spk"])})
            tx.tx_outs.append(TxOut(e["v"], lib_script(bytes.fromhex(e["spk"]), ScriptPubKey)))
            inv = {"e": "out_remove", "j": len(m["outs"]) - 1}
        elif k == "out_remove":
            if not m["outs"]:
                return None
            j = e["j"] % len(m["outs"])
            o = m["outs"].pop(j)
            tx.tx_outs.pop(j)
            inv = {"e": "out_insert", "j": j, "v": o["amount"], "spk": o["spk"].hex()}
        elif k == "out_insert":
            j = min(e["j"], len(m["outs"]))
            m["outs"].insert(j, {"amount": e["v"], "spk": bytes.fromhex(e["spk"])})
            tx.tx_outs.insert(j, TxOut(e["v"], lib_script(bytes.fromhex(e["spk"]), ScriptPubKey)))
            inv = {"e": "out_remove", "j": j}
        elif k == "in_sequence":
            i = e["i"] % len(m["ins"])
            inv = {"e": "in_sequence", "i": i, "v": m["ins"][i]["sequence"]}
            m["ins"][i]["sequence"] = e["v"]
            tx.tx_ins[i].sequence = Sequence(e["v"])
        elif k == "in_outpoint" and self.inps[e["i"] % len(m["ins"])].funding is not None:
            # looked-up spent outputs: the input is pointed at another output of the same funding transaction (another amount)
            i = e["i"] % len(m["ins"])
            inp = self.inps[i]
            if inp.spk != inp.spk_at_creation or inp.amount != inp.funding["outs"][m["ins"][i]["vout"]]["amount"]:
                return None  # the spent output was overridden by hand before: outpoint and spent data no longer correspond
            j = (m["ins"][i]["vout"] + 1 + e["vout"] % 2) % 3
            old_v = m["ins"][i]["vout"]
            # inverse: an edit whose (cur + 1 + vout % 2) % 3 lands on old_v again
            inv = {"e": "in_outpoint", "i": i, "txid": m["ins"][i]["txid"].hex(), "vout": (old_v - j - 1) % 3}
            m["ins"][i]["vout"] = j
            inp.amount = inp.funding["outs"][j]["amount"]
            tx.tx_ins[i].prev_index = j
            self.tr.probe("outpoint_moved_within_funding_tx")
        elif k == "in_outpoint":
            i = e["i"] % len(m["ins"])
            inv = {"e": "in_outpoint", "i": i, "txid": m["ins"][i]["txid"].hex(), "vout": m["ins"][i]["vout"]}
            m["ins"][i]["txid"] = bytes.fromhex(e["txid"])
            m["ins"][i]["vout"] = e["vout"]
            tx.tx_ins[i].prev_tx = bytes.fromhex(e["txid"])
            tx.tx_ins[i].prev_index = e["vout"]
        elif k == "in_append":
            if len(m["ins"]) >= 7:
                return None
            ti = self.make_input(e["spec"])
            tx.tx_ins.append(ti)
            inv = {"e": "in_remove", "i": len(m["ins"]) - 1}
        elif k == "in_remove":
            if len(m["ins"]) <= 1:
                return None
            i = e["i"] % len(m["ins"])
            m["ins"].pop(i)
            self.inps.pop(i)
            tx.tx_ins.pop(i)
            inv = None  # not reverted (the signed state of the removed input is gone)
        elif k == "locktime":
            inv = {"e": "locktime", "v": m["locktime"]}
            m["locktime"] = e["v"]
            tx.locktime = Locktime(e["v"])
        elif k == "version":
            inv = {"e": "version", "v": m["version"]}
            m["version"] = e["v"]
            tx.version = e["v"]
        elif k == "spent_amount":
            i = e["i"] % len(m["ins"])
            inv = {"e": "spent_amount", "i": i, "v": self.inps[i].amount}
            self.inps[i].amount = e["v"]
            self.hand_in(i)
        elif k == "spent_script":
            i = e["i"] % len(m["ins"])
            inv = {"e": "spent_script", "i": i, "spk": self.inps[i].spk.hex()}
            # another scriptPubKey of the same template (different hash / key) keeps the dispatcher on the same algorithm
            h = bytes.fromhex(e["h"]) if e.get("h") else None
            old_spk = self.inps[i].spk
            if e.get("spk"):
                new_spk = bytes.fromhex(e["spk"])  # (inverse edit: exact previous value)
            elif old_spk[:3] == b"\x76\xa9\x14":
                new_spk = tm.spk_p2pkh(h[:20])
            elif old_spk[:2] == b"\xa9\x14":
                new_spk = tm.spk_p2sh(h[:20])
            elif old_spk[:2] == b"\x00\x14":
                new_spk = tm.spk_p2wpkh(h[:20])
            elif old_spk[:2] == b"\x00\x20":
                new_spk = tm.spk_p2wsh(h)
            else:
                new_spk = tm.spk_p2tr(h)
            self.inps[i].spk = new_spk
            self.hand_in(i)
        elif k == "annex":
            i = e["i"] % len(m["ins"])
            inp = self.inps[i]
            if inp.kind not in ("p2tr_key", "p2tr_script"):
                return None
            old = inp.annex
            new = bytes.fromhex(e["annex"]) if e.get("annex") else None
            inv = {"e": "annex", "i": i, "annex": old.hex() if old is not None else None}
            w = tx.tx_ins[i].witness
            if old is not None:
                w.items.pop()
            if new is not None:
                w.items.append(new)
            inp.annex = new
        elif k == "releaf":
            # the spent taproot output is replaced by one committing to ANOTHER leaf (other keys / threshold / internal key) and the
            # witness is re-dressed for that leaf, either by hand or through the library's initialize_p2tr_multisig helper, which
            # also leaves a tap_script attribute on the input: later digests must be those of the leaf now in the witness
            i = e["i"] % len(m["ins"])
            old = self.inps[i]
            if old.kind != "p2tr_script":
                return None
            spec = dict(e["spec"], kind="p2tr_script", amount=old.amount, annex=old.annex.hex() if old.annex is not None else None)
            new = Inp(spec, i)
            if e.get("spk_override"):
                new.spk = bytes.fromhex(e["spk_override"])
            inv = {"e": "releaf", "i": i, "spec": old.spec, "spk_override": old.spk.hex()}
            self.inps[i] = new
            ti = tx.tx_ins[i]
            self.hand_in(i)
            if e.get("via_init") and len(new.keys) > 1:
                points = [S256Point.parse_xonly(secp.xonly(pub(x))) for x in new.keys]
                ti.witness = Witness()
                tx.initialize_p2tr_multisig(i, ControlBlock.parse(new.control), MultiSigTapScript(points, new.m))
                # placeholders where finalize_p2tr_multisig will put the signatures (keeps item 0 a signature slot for 'witness_item')
                ti.witness.items[0:0] = [DUMMY_SCHNORR] * len(new.keys)
                self.tr.probe("releaf_via_initialize")
            else:
                ti.witness = Witness([DUMMY_SCHNORR] * len(new.keys) + [new.leaf_script, new.control])
                self.tr.probe("releaf_by_hand")
            if new.annex is not None:
                ti.witness.items.append(new.annex)
        elif k == "witness_item":
            # an uncommitted witness/scriptSig change: replace the first placeholder/signature element of a *witness* by other bytes
            i = e["i"] % len(m["ins"])
            inp = self.inps[i]
            w = tx.tx_ins[i].witness
            if inp.kind in ("p2pkh", "p2sh_ms") or len(w.items) == 0:
                return None
            pos = 1 if inp.kind in ("p2wsh_ms", "p2sh_p2wsh_ms") else 0
            if pos >= len(w.items):
                return None
            inv = {"e": "witness_item", "i": i, "data": w.items[pos].hex()}
            w.items[pos] = bytes.fromhex(e["data"])
            if inp.signed is not None and bytes.fromhex(e["data"]) != inp.signed.get("item0"):
                inp.signed["tampered"] = True
            elif inp.signed is not None:
                inp.signed["tampered"] = False
        else:
            raise ValueError(k)
        return inv

    def op_edit(self, st):
        inv = self.apply_edit(st)
        if inv is not None or st["e"] == "in_remove":
            self.edits += 1
            self.undo.append(inv)
            self.tr.fault("edit_" + st["e"])
            self.tr.ev("tx", "edit", st["e"])

    def op_revert(self, st):
        # undo the most recent revertible edit
        while self.undo:
            inv = self.undo.pop()
            if inv is None:
                # an edit that cannot be undone (input removed): older inverse edits no longer refer to the same inputs
                self.undo = []
                return
            self.apply_edit(inv)
            self.edits += 1
            self.tr.fault("revert")
            self.tr.ev("tx", "revert", inv["e"])
            return

    def op_clone(self, st):
        self.tx = self.tx.clone()
        self.tr.fault("clone")
        self.tr.ev("tx", "clone")
        # clone re-parses: tap_script attribute of inputs is not carried (library behaviour), spent outputs are

    def op_reparse(self, st):
        self.tx = self.fresh_copy()
        self.tr.fault("reparse")
        self.tr.ev("tx", "reparse")

    # ---------------------------------------------------------------- sign / verify (C06)
    def op_sign(self, st):
        tr = self.tr
        idx = st["i"] % len(self.inps)
        inp = self.inps[idx]
        tx = self.tx
        ti = tx.tx_ins[idx]
        k = inp.kind
        ht = 1
        if inp.spk != inp.spk_at_creation:
            return  # spent script was edited to something this key set cannot sign for
        if inp.algo() == "bip341" and self.ref_digest(idx, "bip341", st.get("ht", 0)) is None:
            # the specification defines no signature message here (SIGHASH_SINGLE without a matching output): the library
            # must not produce a valid spend; a refusal (exception) is the expected behaviour
            try:
                if k == "p2tr_key":
                    okx = tx.sign_p2tr_keypath(idx, priv(inp.keys[0]).tweaked_key(b""), hash_type=st.get("ht", 0))
                    tr.oracle("H4")
                    if okx:
                        fail("C06", "H4", "signed_undefined_message", f"input {idx}: SIGHASH_SINGLE without matching output has no BIP341 message, yet sign_p2tr_keypath produced a spend that verifies")
            except SimDeadlock:
                raise
            except Exception:
                tr.probe("refused_undefined_message")
            self.dress(ti, inp) if False else None
            inp.signed = None
            return
        try:
            if k == "p2pkh":
                ok = tx.sign_input(idx, priv(inp.keys[0], inp.unc)) if st.get("via_sign_input") else tx.sign_p2pkh(idx, priv(inp.keys[0], inp.unc))
            elif k == "p2wpkh":
                ok = tx.sign_input(idx, priv(inp.keys[0])) if st.get("via_sign_input") else tx.sign_p2wpkh(idx, priv(inp.keys[0]))
            elif k == "p2sh_p2wpkh":
                if st.get("via_sign_input"):
                    ok = tx.sign_input(idx, priv(inp.keys[0]), redeem_script=lib_script(inp.redeem, RedeemScript))
                else:
                    ok = tx.sign_p2sh_p2wpkh(idx, priv(inp.keys[0]))
            elif k == "p2sh_ms":
                rd = lib_script(inp.redeem, RedeemScript)
                chosen = self.choose_signers(inp, st)
                sigs = [tx.get_sig_legacy(idx, priv(x), redeem_script=rd) for x in chosen]
                ti.finalize_p2sh_multisig(sigs, rd)
                ok = tx.verify_input(idx)
            elif k in ("p2wsh_ms", "p2sh_p2wsh_ms"):
                ws = lib_script(inp.wscript, WitnessScript)
                chosen = self.choose_signers(inp, st)
                sigs = [tx.get_sig_segwit(idx, priv(x), witness_script=ws) for x in chosen]
                if k == "p2wsh_ms":
                    ti.finalize_p2wsh_multisig(sigs, ws)
                else:
                    ti.finalize_p2sh_p2wsh_multisig(sigs, ws)
                ok = tx.verify_input(idx)
            elif k == "p2tr_key":
                ht = st.get("ht", 0)
                tweaked = priv(inp.keys[0]).tweaked_key(b"")
                if inp.annex is not None:
                    # the helpers have no annex parameter: present the annex in the witness first, then sign and place the signature
                    ti.witness = Witness([DUMMY_SCHNORR, inp.annex])
                    sig = tx.get_sig_taproot(idx, tweaked, ext_flag=0, hash_type=ht)
                    ti.witness = Witness([sig, inp.annex])
                    ok = tx.verify_input(idx)
                else:
                    ok = tx.sign_p2tr_keypath(idx, tweaked, hash_type=ht) if not st.get("via_sign_input") else tx.sign_input(idx, tweaked, hash_type=ht)
            elif k == "p2tr_script":
                ht = st.get("ht", 0)
                points = [S256Point.parse_xonly(secp.xonly(pub(x))) for x in inp.keys]
                tap_script = MultiSigTapScript(points, inp.m) if len(points) > 1 else None
                if tap_script is None:
                    from buidl.taproot import P2PKTapScript

                    tap_script = P2PKTapScript(points[0])
                if tap_script.raw_serialize() != inp.leaf_script:
                    fail("C06", "H4", "tapscript_template", f"library MultiSigTapScript serialises to {tap_script.raw_serialize().hex()}, BIP342 template is {inp.leaf_script.hex()}")
                cb = ControlBlock.parse(inp.control)
                ti.witness = Witness([inp.leaf_script, inp.control] + ([inp.annex] if inp.annex is not None else []))
                chosen = self.choose_signers(inp, st)
                sigs = [tx.get_sig_taproot(idx, priv(x), ext_flag=1, hash_type=ht) for x in chosen]
                if inp.annex is None and len(points) > 1:
                    ti.witness = Witness()
                    tx.initialize_p2tr_multisig(idx, cb, tap_script)
                    if st.get("partial_first") and len(sigs) >= 1:
                        # signatures come in one at a time: an early attempt with too few of them, then the complete set on the same object
                        tr.fault("finalize_attempt_with_too_few_signatures")
                        early = tx.finalize_p2tr_multisig(idx, sigs[: inp.m - 1])
                        if early and inp.m > 1:
                            fail("C06", "H4", "finalize_with_too_few_signatures_valid_p2tr_script", f"finalize_p2tr_multisig with {inp.m - 1} of {inp.m} required signatures reported a valid spend")
                    ok = tx.finalize_p2tr_multisig(idx, sigs)
                else:
                    # witness stack: signatures in reverse key order (last key's signature first), empty for non-signers
                    xs = sorted(secp.xonly(pub(x)) for x in inp.keys)
                    by_x = {secp.xonly(pub(x)): s for x, s in zip(chosen, sigs)}
                    items = [by_x.get(x, b"") for x in reversed(xs)]
                    ti.witness = Witness(items + [inp.leaf_script, inp.control] + ([inp.annex] if inp.annex is not None else []))
                    ok = tx.verify_input(idx)
            else:
                return
        except SimDeadlock:
            raise
        except Exception as e:
            tr.ev("tx", "sign-raised", f"{idx}|{k}|{type(e).__name__}")
            fail("C06", "H4", f"sign_raised_{k}" + ("_annex" if inp.annex is not None else ""), f"signing input {idx} ({k}{', annex' if inp.annex is not None else ''}) through the library raised {type(e).__name__}: {e}")
            inp.signed = None
            return
        self.signs += 1
        algo = inp.algo()
        d = self.ref_digest(idx, algo, ht)
        w = ti.witness.items
        pos = 1 if k in ("p2wsh_ms", "p2sh_p2wsh_ms") else 0
        inp.signed = {"digest": d, "ht": ht, "spk": inp.spk, "annex": inp.annex, "tampered": False, "item0": (w[pos] if len(w) > pos else None)}
        tr.ev("tx", "sign", f"{idx}|{k}|{ht:#x}|{bool(ok)}")
        tr.probe("signed_" + k + ("_annex" if inp.annex is not None else "") + ("_uncompressed_keys" if inp.unc else ""))
        tr.oracle("H4")
        if d is None:
            # specification has no message (taproot SINGLE without output): a successful signature is a violation of C05, a refusal is fine
            return
        if not ok:
            fail("C06", "H4", f"fresh_spend_invalid_{k}" + ("_annex" if inp.annex is not None else ""), f"input {idx} ({k}{', annex' if inp.annex is not None else ''}, hash type {ht:#x}) signed through the library does not verify")
        # independent verification of the produced signatures over the reference digest
        self.ref_check_signatures(idx, inp, ht, d)

    def choose_signers(self, inp, st):
        order = list(range(len(inp.keys)))  # CHECKMULTISIG: signatures must follow the order of the keys in the script
        if inp.kind == "p2tr_script":
            order = sorted(range(len(inp.keys)), key=lambda j: secp.xonly(pub(inp.keys[j])))
        r = plan_rng(st.get("pick", 0), "signers")
        count = inp.m
        if st.get("extra_signer") and inp.kind == "p2tr_script" and inp.annex is None and len(order) > inp.m:
            # more cosigners than required hand in a signature (all of them valid): the library's finaliser gets them all
            count = inp.m + 1
            self.tr.fault("more_signers_than_required")
        pick = sorted(r.sample(range(len(order)), count))
        return [inp.keys[order[j]] for j in pick]

    def ref_check_signatures(self, idx, inp, ht, d):
        """H4: the signatures the library placed verify under ref/secp over the reference digest."""
        tx = self.tx
        raw = tx.serialize()
        mtx, _ = tm.parse_tx(raw, strict=False)
        mi = mtx["ins"][idx]
        k = inp.kind
        z = int.from_bytes(d, "big")
        tr = self.tr
        tr.oracle("H4_ref")

        def ecdsa_ok(sig, pk):
            rs_ = secp.parse_der_lax(sig[:-1])
            return rs_ is not None and sig[-1] == ht and secp.ecdsa_verify(secp.parse_sec(pk), z, rs_[0], rs_[1])

        good = True
        if k == "p2pkh":
            ss = mi["script_sig"]
            sig = ss[1 : 1 + ss[0]]
            pk = ss[2 + ss[0] :]
            good = ecdsa_ok(sig, pk)
        elif k in ("p2wpkh", "p2sh_p2wpkh"):
            good = len(mi["witness"]) == 2 and ecdsa_ok(mi["witness"][0], mi["witness"][1])
        elif k in ("p2wsh_ms", "p2sh_p2wsh_ms"):
            sigs = mi["witness"][1:-1]
            pks = [secp.sec(pub(x)) for x in inp.keys]
            good = len(sigs) == inp.m and all(any(ecdsa_ok(s, pk) for pk in pks) for s in sigs)
        elif k == "p2sh_ms":
            pks = inp.pks()
            # scriptSig: OP_0 <sig>... <redeem>
            ss = mi["script_sig"]
            p = 1
            sigs = []
            while p < len(ss):
                n = ss[p]
                if n == 0x4C:
                    n = ss[p + 1]
                    p += 1
                elif n == 0x4D:
                    n = ss[p + 1] | (ss[p + 2] << 8)
                    p += 2
                sigs.append(ss[p + 1 : p + 1 + n])
                p += 1 + n
            sigs = sigs[:-1]
            good = len(sigs) == inp.m and all(any(ecdsa_ok(s, pk) for pk in pks) for s in sigs)
        elif k == "p2tr_key":
            sig = mi["witness"][0]
            good = secp.schnorr_verify(inp.spk[2:], d, sig[:64]) and (len(sig) == 64) == (ht == 0) and (len(sig) == 64 or sig[64] == ht)
        elif k == "p2tr_script":
            n_sig = len(inp.keys)
            sigs = [s for s in mi["witness"][:n_sig] if s]
            xs = [secp.xonly(pub(x)) for x in inp.keys]
            good = len(sigs) == inp.m and all(any(secp.schnorr_verify(x, d, s[:64]) for x in xs) for s in sigs)
        if not good:
            fail("C06", "H4", f"signature_not_over_spec_digest_{k}", f"signature(s) placed by the library on input {idx} ({k}, hash type {ht:#x}) do not verify under the reference verifier over the specification digest {d.hex()}")

    def op_verify(self, st):
        tr = self.tr
        if not self.inps:
            return
        idx = st["i"] % len(self.inps)
        inp = self.inps[idx]
        if inp.signed is None:
            return
        reps = st.get("reps", 1)
        verdicts = []
        for _ in range(reps):
            try:
                v = bool(self.tx.verify_input(idx))
            except SimDeadlock:
                raise
            except Exception as e:
                v = False
                tr.ev("tx", "verify-raised", type(e).__name__)
            verdicts.append(v)
        sg = inp.signed
        now = self.ref_digest(idx, inp.algo(), sg["ht"])
        # the expected verdict is a function of the *current* state only: the reference's judgement of the current bytes
        # (bookkeeping of what was signed when cannot know that an edit/revert put an older, still valid signature back)
        try:
            mtx, _ = tm.parse_tx(self.tx.serialize(), strict=False)
            expect, _why = stdverify.verify_input(mtx, idx, self.spent())
            auth, _why2 = stdverify.verify_input(mtx, idx, self.spent(), authorisation_only=True)
        except Exception:
            expect = auth = False
        book = (now is not None and now == sg["digest"] and inp.spk == sg["spk"] and not sg["tampered"] and inp.annex == sg["annex"]
                and all(self.ref_digest(idx, inp.algo(), h) == d for h, d in sg.get("all", [])))
        if book and not expect:
            fail("C06", "H3", f"reference_and_bookkeeping_disagree_{inp.kind}", "harness: the signed state is unchanged per the bookkeeping but the reference finds the spend not authorised")
        tr.oracle("H3")
        tr.probe("verify_after_sign")
        tr.probe("verify_expect_" + str(expect))
        tr.ev("tx", "verify", f"{idx}|{inp.kind}|{verdicts}|expect={expect}")
        tr.state("v", inp.kind, expect, tuple(verdicts), min(self.edits, 3))
        if len(set(verdicts)) > 1:
            fail("C06", "H3", f"verdict_not_idempotent_{inp.kind}", f"verify_input({idx}) ({inp.kind}) gave {verdicts} on back-to-back calls")
        v = verdicts[0]
        if expect and not v:
            fail("C06", "H3", f"valid_reported_invalid_{inp.kind}" + ("_annex" if inp.annex is not None else ""), f"input {idx} ({inp.kind}) carries its signature and the committed data equal the signed data, yet verify_input is False (after {self.edits} edits)")
        if v and auth and not expect:
            tr.probe("accepted_authorised_but_consensus_invalid_tapscript_junk_sig")
        if v and not auth:
            why = "committed data changed after signing" if now != sg["digest"] else "spent script / signature element changed"
            fail("C06", "H3", f"invalid_reported_valid_{inp.kind}" + (f"_m{inp.m}" if "ms" in inp.kind else ""), f"verify_input({idx}) is True for {inp.kind} although {why} (after {self.edits} edits; signed digest {sg['digest'].hex()}, current {now.hex() if now else None})")
        # cross-check on a re-parsed copy: the verdict is a function of the serialised state + spent outputs only
        if st.get("cross"):
            t2 = self.fresh_copy()
            try:
                v2 = bool(t2.verify_input(idx))
            except SimDeadlock:
                raise
            except Exception:
                v2 = False
            tr.oracle("H3_fresh")
            if v2 != v:
                fail("C06", "H3", f"verdict_depends_on_history_{inp.kind}", f"verify_input({idx}) is {v} on the history object and {v2} on a freshly re-parsed copy")


    # ---------------------------------------------------------------- spends signed by the reference, verified by the library (C05 H5)
    def op_refsign(self, st):
        """Signatures are produced by the *reference* (reference digest for each signature's own hash type, reference ECDSA/BIP340 signing),
        assembled with the library's finalisers, and verified by the library: the digest the library verifies with must be the specified one
        for every hash type, also when the signatures of one multisig carry different hash types."""
        tr = self.tr
        if not self.inps:
            return
        idx = st["i"] % len(self.inps)
        inp = self.inps[idx]
        if inp.spk != inp.spk_at_creation:
            return
        tx = self.tx
        ti = tx.tx_ins[idx]
        k = inp.kind
        algo = inp.algo()
        hts = st["hts"]

        def der_sig(secret, d, ht):
            r_, s_ = secp.ecdsa_sign(secret, int.from_bytes(d, "big"))

            def one(v):
                bb = v.to_bytes(33, "big").lstrip(b"\x00")
                if bb[0] & 0x80:
                    bb = b"\x00" + bb
                return b"\x02" + bytes([len(bb)]) + bb

            body = one(r_) + one(s_)
            return b"\x30" + bytes([len(body)]) + body + bytes([ht])

        try:
            if algo in ("legacy", "bip143"):
                types = [h if h in (1, 2, 3, 0x81, 0x82, 0x83) else 1 for h in hts]
                if k in ("p2pkh", "p2wpkh", "p2sh_p2wpkh"):
                    ht = types[0]
                    d = self.ref_digest(idx, algo, ht)
                    sig = der_sig(SECRETS[inp.keys[0]], d, ht)
                    pk = inp.pks()[0]
                    if k == "p2pkh":
                        ti.finalize_p2pkh(sig, pk)
                    elif k == "p2wpkh":
                        ti.finalize_p2wpkh(sig, pk)
                    else:
                        ti.finalize_p2wpkh(sig, pk, lib_script(inp.redeem, RedeemScript))
                    used = [ht]
                else:
                    chosen = self.choose_signers(inp, st)
                    sigs, used = [], []
                    for j, key in enumerate(chosen):
                        ht = types[j % len(types)]
                        d = self.ref_digest(idx, algo, ht)
                        sigs.append(der_sig(SECRETS[key], d, ht))
                        used.append(ht)
                    if k == "p2sh_ms":
                        ti.finalize_p2sh_multisig(sigs, lib_script(inp.redeem, RedeemScript))
                    elif k == "p2wsh_ms":
                        ti.finalize_p2wsh_multisig(sigs, lib_script(inp.wscript, WitnessScript))
                    else:
                        ti.finalize_p2sh_p2wsh_multisig(sigs, lib_script(inp.wscript, WitnessScript))
            else:
                types = [h if h in (0, 1, 2, 3, 0x81, 0x82, 0x83) else 0 for h in hts]
                if k == "p2tr_key":
                    ht = types[0]
                    d = self.ref_digest(idx, algo, ht)
                    if d is None:
                        return
                    sig = secp.schnorr_sign(secp.taproot_tweak_seckey(SECRETS[inp.keys[0]], b""), d) + (bytes([ht]) if ht else b"")
                    ti.witness = Witness([sig] + ([inp.annex] if inp.annex is not None else []))
                    used = [ht]
                else:
                    chosen = self.choose_signers(inp, st)
                    by_x, used = {}, []
                    for j, key in enumerate(chosen):
                        ht = types[j % len(types)]
                        d = self.ref_digest(idx, algo, ht)
                        if d is None:
                            return
                        by_x[secp.xonly(pub(key))] = secp.schnorr_sign(SECRETS[key], d) + (bytes([ht]) if ht else b"")
                        used.append(ht)
                    xs = sorted(secp.xonly(pub(x)) for x in inp.keys)
                    items = [by_x.get(x, b"") for x in reversed(xs)]
                    ti.witness = Witness(items + [inp.leaf_script, inp.control] + ([inp.annex] if inp.annex is not None else []))
        except SimDeadlock:
            raise
        except TypeError:
            return  # digest undefined (None) for this hash type / state
        inp.signed = None
        mtx, _ = tm.parse_tx(tx.serialize(), strict=False)
        ref_ok, why = stdverify.verify_input(mtx, idx, self.spent())
        try:
            lib_ok = bool(tx.verify_input(idx))
            note = ""
        except SimDeadlock:
            raise
        except Exception as e:
            lib_ok = False
            note = f" ({type(e).__name__}: {e})"
        tr.oracle("H5")
        tr.probe("refsigned")
        tr.probe("refsigned_mixed_types" if len(set(used)) > 1 else "refsigned_single_type")
        tr.ev("tx", "refsign", f"{idx}|{k}|{[hex(h) for h in used]}|lib={lib_ok}|ref={ref_ok}")
        tr.state("rs", k, tuple(sorted(set(used))), lib_ok)
        if not ref_ok:
            fail("C05", "H5", "reference_rejects_its_own_spend", f"harness: reference-signed {k} spend not authorised per the reference itself: {why}")
            return
        if lib_ok:
            # the spend is now a signed state like one made by the library's own signers: later verify steps judge it after edits
            w = ti.witness.items if ti.witness is not None else []
            pos = 1 if k in ("p2wsh_ms", "p2sh_p2wsh_ms") else 0
            inp.signed = {"digest": self.ref_digest(idx, algo, used[0]), "ht": used[0], "spk": inp.spk, "annex": inp.annex, "tampered": False, "item0": (w[pos] if len(w) > pos else None),
                          "all": [(h, self.ref_digest(idx, algo, h)) for h in sorted(set(used))]}
        if not lib_ok:
            mixed = "_mixed_hash_types" if len(set(used)) > 1 else ""
            fail("C05", "H5", f"verification_digest_{algo}{mixed}", f"a {k} spend whose signature(s) were made by the reference over the specification digests for hash types {[hex(h) for h in used]} is reported invalid by verify_input({idx}){note}: the digest used in verification differs from the specification")

    # ---------------------------------------------------------------- transmission with in-flight tampering (C06 catalogue as faults)
    def op_transmit(self, st):
        """The (signed) transaction is serialised, possibly tampered with in flight, parsed by a receiver that knows the spent
        outputs, and verified there. Oracle: receiver says valid => the reference finds the spend authorised (T1); an untampered
        spend the reference finds authorised must be reported valid (T2)."""
        tr = self.tr
        if not self.inps:
            return
        idx = st["i"] % len(self.inps)
        inp = self.inps[idx]
        try:
            raw = self.tx.serialize()
        except Exception:
            return
        mtx, _ = tm.parse_tx(raw, strict=False)
        mi = mtx["ins"][idx]
        mut = st.get("mut")
        label = "clean"
        if mut:
            label = self.tamper(mi, inp, mut, idx, mtx)
            if label is None:
                return
            tr.fault("tamper_" + label)
        raw2 = tm.ser_tx(mtx, witness=True)
        try:
            rx = Tx.parse(BytesIO(raw2), network="mainnet")
            for b, ii in zip(rx.tx_ins, self.inps):
                b._value = ii.amount
                b._script_pubkey = lib_script(ii.spk, ScriptPubKey)
            tr.calling(f"receiver_verify_input_{label}_{inp.kind}")
            lib = bool(rx.verify_input(idx))
            tr.calling(None)
            lib_note = ""
        except SimDeadlock:
            raise
        except Exception as e:
            lib = False
            lib_note = type(e).__name__
        ref, why = stdverify.verify_input(mtx, idx, self.spent())
        auth, _ = stdverify.verify_input(mtx, idx, self.spent(), authorisation_only=True)
        tr.oracle("T1")
        tr.probe("transmissions")
        tr.probe(f"transmit_lib{int(lib)}_ref{int(ref)}")
        tr.ev("net", "transmit", f"{idx}|{inp.kind}|{label}|lib={lib}{('/' + lib_note) if lib_note else ''}|ref={ref}")
        tr.state("tx", inp.kind, label, lib, ref)
        owner = "C05" if self.prop == "C05" else "C06"  # in C05 runs the re-labelled hash type is a digest question
        if lib and auth and not ref:
            tr.probe("accepted_authorised_but_consensus_invalid_tapscript_junk_sig")
        if lib and not auth:
            fail(owner, "T1", f"accepted_unauthorised_{label}_{inp.kind}", f"receiver's verify_input({idx}) is True for a {inp.kind} spend after in-flight change '{label}', but the reference finds it not authorised ({why})")
        if not mut and ref and not lib:
            fail(owner, "T2", f"authorised_rejected_{inp.kind}", f"untampered {inp.kind} spend is authorised per the reference but the receiver's verify_input({idx}) is False {lib_note}")

    def tamper(self, mi, inp, mut, idx, mtx):
        k = mut["kind"]
        a, b = mut.get("a", 0), mut.get("b", 0)
        kind = inp.kind
        ss_items = stdverify.parse_pushes(mi["script_sig"])
        wit = mi["witness"]

        def enc(items):
            return b"".join(b"\x00" if it == b"" else tm.push(it) for it in items)

        # where do the signatures live?
        if kind in ("p2pkh",):
            sig_slots = [("ss", 0)]
        elif kind == "p2sh_ms":
            sig_slots = [("ss", j) for j in range(1, len(ss_items or []) - 1)]
        elif kind in ("p2wpkh", "p2sh_p2wpkh"):
            sig_slots = [("w", 0)] if len(wit) >= 1 else []
        elif kind in ("p2wsh_ms", "p2sh_p2wsh_ms"):
            sig_slots = [("w", j) for j in range(1, len(wit) - 1)]
        elif kind == "p2tr_key":
            sig_slots = [("w", 0)] if wit else []
        else:
            n_sig = len(inp.keys)
            sig_slots = [("w", j) for j in range(min(n_sig, len(wit))) if wit[j]]

        def get(slot):
            return ss_items[slot[1]] if slot[0] == "ss" else wit[slot[1]]

        def put(slot, v):
            if slot[0] == "ss":
                ss_items[slot[1]] = v
                mi["script_sig"] = enc(ss_items)
            else:
                wit[slot[1]] = v

        if k == "flip":
            region = mut.get("region", "w")
            if region == "ss" and mi["script_sig"]:
                bb = bytearray(mi["script_sig"])
                bb[a % len(bb)] ^= 1 << (b % 8)
                mi["script_sig"] = bytes(bb)
                return "flip_scriptsig"
            nz = [j for j, w in enumerate(wit) if w]
            if not nz:
                return None
            j = nz[a % len(nz)]
            bb = bytearray(wit[j])
            bb[(a // 7) % len(bb)] ^= 1 << (b % 8)
            wit[j] = bytes(bb)
            return "flip_witness"
        if k == "retag":
            if not sig_slots:
                return None
            slot = sig_slots[a % len(sig_slots)]
            sig = get(slot)
            if not sig:
                return None
            if kind in ("p2tr_key", "p2tr_script"):
                types = [1, 2, 3, 0x81, 0x82, 0x83]
                cur = sig[64] if len(sig) == 65 else 0
                new = [t for t in types if t != cur][b % 5]
                put(slot, sig[:64] + bytes([new]))
            else:
                types = [1, 2, 3, 0x81, 0x82, 0x83]
                if mut.get("undefined"):
                    # a type byte that differs from the signed one only in bits the defined types do not use (bits 2..6): the digest
                    # commits to the whole byte, so the signature no longer verifies
                    new = sig[-1] ^ [0x04, 0x40, 0x7C, 0x20, 0x08, 0x10][b % 6]
                    put(slot, sig[:-1] + bytes([new]))
                    return "retag_sighash_undefined_bits"
                new = [t for t in types if t != sig[-1]][b % 5]
                put(slot, sig[:-1] + bytes([new]))
            return "retag_sighash" + ("_not_last" if slot != sig_slots[-1] else "_last")
        if k == "drop_sig":
            if not sig_slots:
                return None
            slot = sig_slots[a % len(sig_slots)]
            if slot[0] == "ss":
                ss_items.pop(slot[1])
                mi["script_sig"] = enc(ss_items)
            elif kind == "p2tr_script":
                wit[slot[1]] = b""
            else:
                wit.pop(slot[1])
            return "drop_sig"
        if k == "swap_sigs":
            if len(sig_slots) < 2:
                return None
            s1, s2 = sig_slots[a % len(sig_slots)], sig_slots[(a + 1) % len(sig_slots)]
            v1, v2 = get(s1), get(s2)
            if v1 == v2:
                return None
            put(s1, v2)
            put(s2, v1)
            return "swap_sigs"
        if k == "dup_sig":
            if len(sig_slots) < 2:
                return None
            s1, s2 = sig_slots[a % len(sig_slots)], sig_slots[(a + 1) % len(sig_slots)]
            if get(s1) == get(s2):
                return None
            put(s2, get(s1))
            return "dup_sig"
        if k == "foreign_sig":
            if not sig_slots:
                return None
            slot = sig_slots[a % len(sig_slots)]
            outsider = [x for x in range(8) if x not in inp.keys][b % (8 - len(set(inp.keys)))]
            algo = inp.algo()
            if algo == "bip341":
                ht = 0
                d = self.ref_digest(idx, algo, ht)
                if d is None:
                    return None
                sec_ = SECRETS[outsider]
                put(slot, secp.schnorr_sign(sec_, d))
            else:
                d = self.ref_digest(idx, algo, 1)
                r_, s_ = secp.ecdsa_sign(SECRETS[outsider], int.from_bytes(d, "big"))

                def der_int(v):
                    bb = v.to_bytes(33, "big").lstrip(b"\x00")
                    if bb[0] & 0x80:
                        bb = b"\x00" + bb
                    return b"\x02" + bytes([len(bb)]) + bb

                body = der_int(r_) + der_int(s_)
                put(slot, b"\x30" + bytes([len(body)]) + body + b"\x01")
            return "foreign_key_sig"
        if k == "cb_parity":
            if kind != "p2tr_script" or len(wit) < 2:
                return None
            pos = -2 if (len(wit) >= 3 and wit[-1][:1] == b"\x50") else -1
            cbb = bytearray(wit[pos])
            cbb[0] ^= 1
            wit[pos] = bytes(cbb)
            return "control_block_parity"
        if k == "cb_flip":
            if kind != "p2tr_script" or len(wit) < 2:
                return None
            pos = -2 if (len(wit) >= 3 and wit[-1][:1] == b"\x50") else -1
            cbb = bytearray(wit[pos])
            cbb[1 + a % (len(cbb) - 1)] ^= 1 << (b % 8)
            wit[pos] = bytes(cbb)
            return "control_block_flip"
        if k == "annex_only":
            if kind not in ("p2tr_key", "p2tr_script"):
                return None
            mi["witness"] = [b"\x50" + bytes([a % 256]) * (b % 70)]
            return "annex_only_witness"
        if k == "empty_witness":
            if not wit:
                return None
            mi["witness"] = []
            return "empty_witness"
        if k == "truncate_witness":
            if len(wit) < 2:
                return None
            mi["witness"] = wit[: 1 + a % (len(wit) - 1)]
            return "truncated_witness"
        if k == "sigfree_scriptsig":
            # signature-free scriptSig with extra pushes/opcodes around the redeem script (or in front of a witness program)
            extra = [b"\x01", b"", b"\x01\x02\x03", bytes(20)][a % 4]
            if kind in ("p2sh_ms",):
                mi["script_sig"] = enc([extra] * (1 + b % 3) + [inp.redeem])
                return "sigfree_scriptsig_p2sh"
            if kind in ("p2sh_p2wpkh", "p2sh_p2wsh_ms"):
                mi["script_sig"] = enc([extra, inp.redeem])
                if b % 2:
                    mi["witness"] = []
                return "extra_push_before_redeem_script"
            if kind in ("p2wpkh", "p2wsh_ms", "p2tr_key", "p2tr_script"):
                mi["script_sig"] = enc([extra])
                if b % 2:
                    mi["witness"] = []
                return "nonempty_scriptsig_on_witness_output"
            if kind == "p2pkh":
                mi["script_sig"] = enc([extra, ss_items[1] if ss_items and len(ss_items) > 1 else extra])
                return "sigfree_scriptsig_p2pkh"
            return None
        if k == "sigfree_opcodes":
            # a signature-free scriptSig made of opcodes (conditionals that try to swallow the scriptPubKey, stack tricks, ...)
            cat = SIGFREE_CAT
            if a % 3 == 0:
                r_ = plan_rng(a, "ops")
                pool = [0x00, 0x51, 0x52, 0x63, 0x64, 0x67, 0x68, 0x69, 0x6A, 0x74, 0x75, 0x76, 0x77, 0x78, 0x7C, 0x82, 0x87, 0x88, 0x91, 0x92, 0x9A, 0x9B, 0xA9, 0xAA]
                ops = [r_.choice(pool) for _ in range(r_.randrange(1, 6))]
            else:
                ops = cat[(a // 3) % len(cat)]
            if kind in ("p2wpkh", "p2wsh_ms", "p2tr_key", "p2tr_script") and b % 3 == 0:
                mi["witness"] = []
            if kind in ("p2sh_ms", "p2sh_p2wpkh", "p2sh_p2wsh_ms") and inp.redeem is not None:
                # opcodes around the genuine redeem script push: in front of it, behind it (so that the redeem script is no longer
                # the element directly followed by the scriptPubKey), on both sides, or instead of it
                place = b % 4
                red = tm.push(inp.redeem)
                behind = bytes(cat[(a // 7) % len(cat)]) if place == 3 else bytes(ops)
                mi["script_sig"] = {0: bytes(ops) + red, 1: red + bytes(ops), 2: bytes(ops), 3: bytes(ops) + red + behind}[place]
                return "sigfree_opcodes_scriptsig" + ("" if place in (0, 2) else "_behind_redeem")
            mi["script_sig"] = bytes(ops)
            return "sigfree_opcodes_scriptsig"
        if k == "degenerate_sig":
            # every signature slot holds a degenerate ECDSA / Schnorr value: (r, s) = (0, 0), (0, 1), (1, 0), (N, N), all-zero 64 bytes
            v = a % 5
            if not sig_slots:
                return None
            if kind in ("p2tr_key", "p2tr_script"):
                val = [bytes(64), bytes(32) + b"\x00" * 31 + b"\x01", b"\x00" * 31 + b"\x01" + bytes(32), b"\xff" * 64, bytes(63) + b"\x01"][v]
            else:
                N_ = 0xFFFFFFFFFFFFFFFFFFFFFFFFFFFFFFFEBAAEDCE6AF48A03BBFD25E8CD0364141
                r_, s_ = [(0, 0), (0, 1), (1, 0), (N_, N_), (N_, 0)][v]

                def one(x_):
                    bb = x_.to_bytes(33, "big").lstrip(b"\x00") or b"\x00"
                    if bb[0] & 0x80:
                        bb = b"\x00" + bb
                    return b"\x02" + bytes([len(bb)]) + bb

                body = one(r_) + one(s_)
                val = b"\x30" + bytes([len(body)]) + body + b"\x01"
            for slot in sig_slots:
                put(slot, val)
            return "degenerate_signature_values"
        if k == "program_splice":
            # signature-free spends that plant a witness-program pattern (<0> <20/32 bytes> or <1> <32 bytes>) where it does not belong:
            # in the scriptSig of a non-witness output, or among the witness items of a witness output, together with an attacker-chosen
            # "witness script" / taproot leaf; none of them carries a valid signature of a script key
            v = a % 6
            one = b"\x51"  # OP_1
            junk = bytes([0x42 + b % 5]) * (1 + b % 30)
            if v == 0 and kind in ("p2sh_ms", "p2sh_p2wpkh", "p2sh_p2wsh_ms", "p2pkh"):
                # v0 pattern in the scriptSig, witness script OP_1 (p2pkh: OP_0 OP_IF ... with witness script OP_ENDIF OP_1)
                if kind == "p2pkh":
                    w_ = b"\x68\x51"
                    mi["script_sig"] = b"\x00" + tm.push(tm.sha256(w_)) + b"\x00\x63"
                else:
                    w_ = one
                    mi["script_sig"] = b"\x00" + tm.push(tm.sha256(w_)) + tm.push(junk)
                mi["witness"] = [w_]
                return "v0_program_in_scriptsig"
            if v == 1 and kind in ("p2sh_ms", "p2sh_p2wpkh", "p2sh_p2wsh_ms", "p2pkh"):
                # v1 pattern in the scriptSig with the attacker's own one-leaf tree (leaf OP_1)
                ix = secp.xonly(pub((inp.keys[0] + 3) % 8))
                lh = rs.tapleaf_hash(one)
                q = secp.taproot_tweak_pubkey(ix, lh)
                cb = bytes([0xC0 + (q[1] & 1)]) + ix
                mi["script_sig"] = b"\x51" + tm.push(secp.xonly(q)) + (tm.push(junk) if kind != "p2pkh" else b"")
                mi["witness"] = [one, cb]
                return "v1_program_in_scriptsig"
            if v == 2 and kind == "p2tr_script" and inp.control is not None:
                # inside the tapscript: <empty> <sha256(control block)> makes a v0 reader take the control block as a witness script
                mi["witness"] = [b"", tm.sha256(inp.control)] + [b""] * len(inp.keys) + [inp.leaf_script, inp.control]
                return "v0_program_among_tapscript_witness_items"
            if v == 3 and kind in ("p2wpkh", "p2sh_p2wpkh"):
                # <empty> <sha256(pubkey)> in front of a foreign signature and the owner's public key
                sec_ = secp.sec(pub(inp.keys[0]))
                mi["witness"] = [b"", tm.sha256(sec_), DUMMY_DER, sec_]
                return "v0_program_among_p2wpkh_witness_items"
            if v == 4 and kind in ("p2wsh_ms", "p2sh_p2wsh_ms") and inp.wscript is not None:
                # <empty> <sha256(witness script)> in front of empty signature slots
                mi["witness"] = [b"", tm.sha256(inp.wscript)] + [b""] * (inp.m + 1) + [inp.wscript]
                return "v0_program_among_p2wsh_witness_items"
            if v == 5 and kind in ("p2tr_key", "p2tr_script", "p2wpkh", "p2wsh_ms"):
                # a nested v1 program: the witness carries <1> <Q'> of the attacker's tree ahead of its leaf and control block
                ix = secp.xonly(pub((inp.keys[0] + 5) % 8))
                lh = rs.tapleaf_hash(one)
                q = secp.taproot_tweak_pubkey(ix, lh)
                cb = bytes([0xC0 + (q[1] & 1)]) + ix
                if kind in ("p2tr_key", "p2tr_script"):
                    # the output key itself as the nested program, with the attacker's leaf and control block
                    mi["witness"] = [b"\x01", inp.spk[2:], one, cb]
                    return "v1_program_among_witness_items"
                mi["witness"] = [b"\x01", secp.xonly(q), one, cb]
                return "v1_program_among_witness_items"
            return None
        if k == "wrong_script":
            # another (well-formed) redeem/witness script in place of the committed one
            other = tm.multisig_script(1, [secp.sec(pub((inp.keys[0] + 1 + a) % 8))])
            if kind == "p2sh_ms" and ss_items:
                ss_items[-1] = other
                mi["script_sig"] = enc(ss_items)
                return "foreign_redeem_script"
            if kind in ("p2wsh_ms", "p2sh_p2wsh_ms") and wit:
                wit[-1] = other
                return "foreign_witness_script"
            if kind == "p2tr_script" and len(wit) >= 2:
                pos = -3 if (len(wit) >= 3 and wit[-1][:1] == b"\x50") else -2
                wit[pos] = tm.push(secp.xonly(pub((inp.keys[0] + 1 + a) % 8))) + b"\xac"
                return "foreign_leaf_script"
            return None
        raise ValueError(k)



def execute(plan, prop, trace):
    import buidl.tx as btx
    from urllib.error import URLError

    def no_explorer(*a, **k):
        raise URLError("simulated: no block explorer in this world")

    saved_cache, saved_urlopen = TxFetcher.cache, btx.urlopen
    TxFetcher.cache = {}
    btx.urlopen = no_explorer
    try:
        return _execute(plan, prop, trace)
    finally:
        TxFetcher.cache = saved_cache
        btx.urlopen = saved_urlopen


def _execute(plan, prop, trace):
    _TR[0] = trace
    w = World(plan, prop, trace)
    if plan.get("fetched"):
        trace.fault("spent_outputs_looked_up_by_the_object")
    for st in plan["steps"]:
        op = st["op"]
        if op == "query":
            w.op_query(st)
        elif op == "edit":
            w.op_edit(st)
        elif op == "revert":
            w.op_revert(st)
        elif op == "clone":
            w.op_clone(st)
        elif op == "reparse":
            w.op_reparse(st)
        elif op == "sign":
            w.op_sign(st)
        elif op == "verify":
            w.op_verify(st)
        elif op == "transmit":
            w.op_transmit(st)
        elif op == "refsign":
            w.op_refsign(st)
        else:
            raise ValueError(op)
    return {"inputs": [i.kind + ("+annex" if i.annex is not None else "") for i in w.inps], "outputs": len(w.model["outs"]),
            "steps": [s["op"] + (":" + s.get("e", "") if s["op"] == "edit" else "") for s in plan["steps"]][:40]}


# ------------------------------------------------------------------------------------------------


def gen_spk(ch):
    h = ch.bytes(32)
    if ch.chance(0.06):
        # output scripts with legal but non-minimal pushes (OP_PUSHDATA1/2 for short data), as found on chain: the digests commit
        # to these bytes as they are
        d = h[: ch.randrange(1, 30)]
        big = ch.bytes(ch.choice([75, 76, 255, 255, 256]))
        return ch.choice([b"\x6a\x4c" + bytes([len(d)]) + d, b"\x6a\x4d" + len(d).to_bytes(2, "little") + d, b"\x4c\x14" + h[:20] + b"\x87", b"\x4e" + len(d).to_bytes(4, "little") + d + b"\x75\x51",
                          b"\x4d" + len(big).to_bytes(2, "little") + big + b"\x75\x51", b"\x4e" + len(big).to_bytes(4, "little") + big + b"\x75\x51"]).hex()
    return ch.choice([tm.spk_p2pkh(h[:20]), tm.spk_p2sh(h[:20]), tm.spk_p2wpkh(h[:20]), tm.spk_p2wsh(h), tm.spk_p2tr(secp.xonly(pub(ch.randrange(8)))), b"\x6a" + tm.push(h[: ch.randrange(0, 30)])]).hex()


def gen_amount(ch):
    return ch.choice([0, 1, 546, 50000, 10**8, 21 * 10**14, 2**32, 2**63 - 1, ch.getrandbits(40)])


def gen_input(ch, kinds=None):
    k = ch.choice(kinds or KINDS)
    spec = {"kind": k, "txid": ch.bytes(32).hex(), "vout": ch.choice([0, 1, 2, 0xFFFFFFFF, ch.randrange(0, 10)]), "sequence": ch.choice([0xFFFFFFFF, 0xFFFFFFFE, 0, 1, 0x400001, ch.getrandbits(32)]),
            "amount": gen_amount(ch)}
    if "ms" in k or k == "p2tr_script":
        n = ch.randrange(1, 4)
        spec["keys"] = ch.sample(range(8), n)
        spec["m"] = ch.randrange(1, n + 1)
        if k == "p2tr_script":
            spec["internal"] = ch.randrange(8)
    else:
        spec["keys"] = [ch.randrange(8)]
    if k in ("p2pkh", "p2sh_ms") and ch.chance(0.25):
        spec["unc"] = True
    if k in ("p2tr_key", "p2tr_script") and ch.chance(0.3):
        spec["annex"] = (b"\x50" + ch.bytes(ch.randrange(0, 40))).hex()
    return spec


EDITS = ["out_amount", "out_script", "out_append", "out_remove", "in_sequence", "in_outpoint", "in_append", "in_remove", "locktime", "version", "spent_amount", "spent_script", "annex", "witness_item", "releaf", "releaf"]


def gen_edit(ch, kinds=None):
    e = ch.choice(EDITS)
    st = {"op": "edit", "e": e, "i": ch.randrange(8), "j": ch.randrange(8)}
    if e in ("out_amount", "out_append"):
        st["v"] = gen_amount(ch)
    if e in ("out_script", "out_append"):
        st["spk"] = gen_spk(ch)
    if e == "in_sequence":
        st["v"] = ch.choice([0, 1, 0xFFFFFFFF, 0xFFFFFFFE, ch.getrandbits(32)])
    if e == "in_outpoint":
        st["txid"] = ch.bytes(32).hex()
        st["vout"] = ch.randrange(0, 5)
    if e == "in_append":
        st["spec"] = gen_input(ch, kinds)
    if e == "locktime":
        st["v"] = ch.choice([0, 1, 499999999, 500000000, 2**32 - 1, ch.getrandbits(32)])
    if e == "version":
        st["v"] = ch.choice([0, 1, 2, 3, 2**31 - 1, 2**32 - 1])
    if e == "spent_amount":
        st["v"] = gen_amount(ch)
    if e == "spent_script":
        st["h"] = ch.bytes(32).hex()
    if e == "annex":
        st["annex"] = (b"\x50" + ch.bytes(ch.randrange(0, 20))).hex() if ch.chance(0.6) else None
    if e == "witness_item":
        st["data"] = ch.bytes(ch.choice([0, 1, 64, 65, 71, 72])).hex()
    if e == "releaf":
        sp = gen_input(ch, ["p2tr_script"])
        if ch.chance(0.6) and len(sp["keys"]) < 2:
            sp["keys"] = ch.sample(range(8), 2)
            sp["m"] = ch.randrange(1, 3)
        st["spec"] = {"keys": sp["keys"], "m": sp["m"], "internal": sp["internal"]}
        st["via_init"] = ch.chance(0.6)
        if ch.chance(0.5):
            st["i"] = 0
    return st


def generate(ch, tier, prop):
    n_in = ch.choice([1, 1, 2, 2, 3, 4, 6]) if prop == "C05" else ch.choice([1, 1, 2, 2, 3])
    n_out = ch.choice([0, 1, 1, 2, 2, 3, 6]) if prop == "C05" else ch.choice([1, 1, 2, 3])
    kinds = KINDS if not ch.chance(0.2) else ch.sample(KINDS, 2)
    plan = {"version": ch.choice([1, 2, 2, 0xFFFFFFFF]), "locktime": ch.choice([0, 0, 500000, 1700000000]), "inputs": [gen_input(ch, kinds) for _ in range(n_in)],
            "outputs": [{"amount": gen_amount(ch), "spk": gen_spk(ch)} for _ in range(n_out)], "steps": []}
    steps = plan["steps"]
    if prop == "C05":
        plan["fetched"] = ch.chance(0.25)
        fault_free = ch.chance(0.2)
        for _ in range(ch.randrange(3, 25)):
            r = ch.random()
            if r < 0.55 or fault_free:
                st = {"op": "query", "i": ch.randrange(8), "ht": ch.choice([0, 1, 1, 2, 3, 0x81, 0x82, 0x83]), "via": "dispatch" if ch.chance(0.3) else "direct"}
                if ch.chance(0.15):
                    st["algo"] = ch.choice(["legacy", "bip143", "bip341"])
                steps.append(st)
            elif r < 0.85:
                steps.append(gen_edit(ch, kinds))
            elif r < 0.92:
                steps.append({"op": "revert"})
            elif r < 0.96:
                steps.append({"op": "clone"})
            else:
                steps.append({"op": "reparse"})
        if ch.chance(0.04 if tier == "quick" else 0.08):
            pos = ch.randrange(0, len(steps) + 1)
            rs_ = {"op": "refsign", "i": ch.randrange(8), "hts": [ch.choice([0, 1, 2, 3, 0x81, 0x82, 0x83]) for _ in range(3)], "pick": ch.randrange(1000)}
            steps.insert(pos, rs_)
            if ch.chance(0.5):
                steps.insert(pos + 1, {"op": "transmit", "i": rs_["i"], "mut": {"kind": "retag", "a": ch.randrange(100), "b": ch.randrange(100)}})
    else:
        budget = ch.randrange(2, 5)  # sign operations (each costs 50-400 ms)
        vbudget = ch.randrange(2, 6)
        fault_free = ch.chance(0.2)
        for _ in range(ch.randrange(4, 16)):
            r = ch.random()
            if r < 0.25 and budget:
                budget -= 1
                if ch.chance(0.25):
                    # signed by other software with any hash type (the library's ECDSA signers only make SIGHASH_ALL signatures)
                    steps.append({"op": "refsign", "i": ch.randrange(4), "hts": [ch.choice([1, 2, 3, 0x81, 0x82, 0x83])] * 3 if ch.chance(0.7) else [ch.choice([0, 1, 2, 3, 0x81, 0x82, 0x83]) for _ in range(3)], "pick": ch.randrange(1000)})
                else:
                    steps.append({"op": "sign", "i": ch.randrange(4), "ht": ch.choice([0, 0, 1, 2, 3, 0x81, 0x82, 0x83]), "pick": ch.randrange(1000), "via_sign_input": ch.chance(0.3), "partial_first": ch.chance(0.3), "extra_signer": ch.chance(0.25)})
                if ch.chance(0.5) and vbudget:
                    vbudget -= 1
                    steps.append({"op": "verify", "i": steps[-1]["i"], "reps": ch.choice([1, 2]), "cross": ch.chance(0.3)})
            elif r < 0.5 and vbudget:
                vbudget -= 1
                steps.append({"op": "verify", "i": ch.randrange(4), "reps": ch.choice([1, 1, 2]), "cross": ch.chance(0.3)})
            elif r < 0.8 and not fault_free:
                steps.append(gen_edit(ch, kinds))
            elif r < 0.9 and not fault_free:
                steps.append({"op": "revert"})
            elif r < 0.95:
                steps.append({"op": "clone"})
            else:
                steps.append({"op": "reparse"})
        # make sure signed inputs get verified at the end
        for i in range(min(n_in, 2)):
            if vbudget:
                vbudget -= 1
                steps.append({"op": "verify", "i": i, "reps": 1})
        # transmissions with in-flight tampering: placed right after sign operations so that the spend is a valid one
        TAMPER = ["degenerate_sig", "program_splice", "sigfree_opcodes", "flip", "flip", "retag", "retag", "drop_sig", "swap_sigs", "dup_sig", "foreign_sig", "cb_parity", "cb_flip", "annex_only", "empty_witness", "truncate_witness", "sigfree_scriptsig", "sigfree_scriptsig", "wrong_script"]
        out = []
        tbudget = ch.randrange(1, 5)
        for st in steps:
            out.append(st)
            if st["op"] in ("sign", "refsign") and tbudget and ch.chance(0.7):
                tbudget -= 1
                t = {"op": "transmit", "i": st["i"]}
                if not fault_free and ch.chance(0.8):
                    tkind = plan["inputs"][st["i"] % len(plan["inputs"])]["kind"]
                    tk = ch.choice(TAMPER_BY_KIND[tkind]) if ch.chance(0.8) else ch.choice(TAMPER)
                    t["mut"] = {"kind": "flip" if tk == "flip_ss" else tk, "a": ch.randrange(10000), "b": ch.randrange(256), "region": "ss" if tk == "flip_ss" else ch.choice(["w", "w", "ss"])}
                    if tk == "retag" and ch.chance(0.4):
                        t["mut"]["undefined"] = True
                out.append(t)
        plan["steps"] = out
    return plan


SIGFREE_CAT = [[0x51, 0x00, 0x63], [0x51, 0x51, 0x64], [0x00, 0x63], [0x51, 0x64], [0x51, 0x00, 0x63, 0x51], [0x51, 0x63, 0x51, 0x67], [0x51], [0x51, 0x76], [0x74], [0x51, 0x69, 0x51],
                   [0x00, 0x64, 0x51, 0x68, 0x00, 0x63], [0x51, 0x00, 0x63, 0x00, 0x63], [0x6A], [0x51, 0x6A], [0x51, 0x75, 0x51, 0x00, 0x63], [0x76], [0x61], [0x51], [0x74], [0x82], [0x76, 0x76], [0x73]]


TAMPER_BY_KIND = {
    "p2pkh": ["degenerate_sig", "program_splice", "sigfree_opcodes", "flip_ss", "retag", "foreign_sig", "sigfree_scriptsig"],
    "p2sh_ms": ["degenerate_sig", "program_splice", "sigfree_opcodes", "flip_ss", "retag", "drop_sig", "swap_sigs", "dup_sig", "foreign_sig", "sigfree_scriptsig", "wrong_script"],
    "p2wpkh": ["degenerate_sig", "program_splice", "sigfree_opcodes", "flip", "retag", "foreign_sig", "empty_witness", "truncate_witness", "sigfree_scriptsig"],
    "p2sh_p2wpkh": ["degenerate_sig", "program_splice", "sigfree_opcodes", "flip", "flip_ss", "retag", "foreign_sig", "empty_witness", "sigfree_scriptsig"],
    "p2wsh_ms": ["degenerate_sig", "program_splice", "sigfree_opcodes", "flip", "retag", "drop_sig", "swap_sigs", "dup_sig", "foreign_sig", "empty_witness", "truncate_witness", "sigfree_scriptsig", "wrong_script"],
    "p2sh_p2wsh_ms": ["degenerate_sig", "program_splice", "sigfree_opcodes", "flip", "flip_ss", "retag", "drop_sig", "swap_sigs", "dup_sig", "foreign_sig", "sigfree_scriptsig", "wrong_script"],
    "p2tr_key": ["degenerate_sig", "program_splice", "sigfree_opcodes", "flip", "retag", "foreign_sig", "annex_only", "empty_witness", "sigfree_scriptsig"],
    "p2tr_script": ["degenerate_sig", "program_splice", "sigfree_opcodes", "flip", "retag", "drop_sig", "swap_sigs", "dup_sig", "foreign_sig", "cb_parity", "cb_flip", "annex_only", "truncate_witness", "sigfree_scriptsig", "wrong_script"],
}


def enumerate_c05(tier, seed):
    r = plan_rng(seed, "enum-c05")
    combos = [[1], [2], [3], [0x81], [0x82], [0x83], [1, 2], [3, 1], [0x83, 1], [2, 0x81]]
    for kind in KINDS:
        for hts in combos:
            if kind in ("p2tr_key", "p2tr_script"):
                hts = [0 if h == 1 and r.random() < 0.5 else h for h in hts]
            multi = kind in ("p2sh_ms", "p2wsh_ms", "p2sh_p2wsh_ms", "p2tr_script")
            if len(hts) > 1 and not multi:
                continue
            n = 3 if multi else 1
            spec = {"kind": kind, "txid": "%064x" % r.getrandbits(256), "vout": r.randrange(3), "sequence": 0xFFFFFFFE, "amount": 100000 + r.randrange(1000), "keys": r.sample(range(8), n)}
            if multi:
                spec["m"] = 2
                if kind == "p2tr_script":
                    spec["internal"] = r.randrange(8)
            if kind in ("p2tr_key", "p2tr_script") and r.random() < 0.4:
                spec["annex"] = "50" + "%02x" % r.randrange(256)
            if kind in ("p2pkh", "p2sh_ms") and sum(hts) % 3 == 0:
                spec["unc"] = True
            other = {"kind": "p2wpkh", "txid": "%064x" % r.getrandbits(256), "vout": 0, "sequence": 0xFFFFFFFF, "amount": 5000, "keys": [r.randrange(8)]}
            yield {"version": 2, "locktime": 0, "inputs": [spec, other], "outputs": [{"amount": 90000, "spk": tm.spk_p2wpkh(bytes(20)).hex()}, {"amount": 5000, "spk": tm.spk_p2pkh(bytes(20)).hex()}],
                   "steps": [{"op": "refsign", "i": 0, "hts": hts, "pick": r.randrange(1000)}], "enum": "refsign"}
    # leaf replacement histories on a taproot script-path input: every order of (helper / by hand) x hash type, query after each
    for a_init in (True, False):
        for b_init in (True, False):
            for ht in (0, 1, 3, 0x81, 0x83):
                for annex in (None, "5001"):
                    spec = {"kind": "p2tr_script", "txid": "%064x" % r.getrandbits(256), "vout": 1, "sequence": 0xFFFFFFFE, "amount": 70000, "keys": r.sample(range(8), 2), "m": 2, "internal": r.randrange(8)}
                    if annex:
                        spec["annex"] = annex
                    la = {"keys": r.sample(range(8), 2), "m": 1, "internal": r.randrange(8)}
                    lb = {"keys": r.sample(range(8), 3), "m": 2, "internal": r.randrange(8)}
                    q = {"op": "query", "i": 0, "ht": ht, "via": "direct"}
                    yield {"version": 2, "locktime": 0, "inputs": [spec], "outputs": [{"amount": 60000, "spk": tm.spk_p2wpkh(bytes(20)).hex()}],
                           "steps": [q, {"op": "edit", "e": "releaf", "i": 0, "j": 0, "spec": la, "via_init": a_init}, q, {"op": "edit", "e": "releaf", "i": 0, "j": 0, "spec": lb, "via_init": b_init}, q,
                                     dict(q, via="dispatch"), {"op": "revert"}, q], "enum": "releaf"}


def enumerate_plans(tier, prop, seed):
    """C06: every signable output type x every applicable in-flight tampering (the property's catalogue as faults).
    C05: every output type x hash-type combinations (also mixed within one multisig) signed by the reference, verified by the library."""
    if prop == "C05":
        yield from enumerate_c05(tier, seed)
        return
    if prop != "C06":
        return
    r = plan_rng(seed, "enum-c06")
    reps = 1 if tier == "quick" else 6
    for kind in KINDS:
        for tki, tk in enumerate(["none"] + TAMPER_BY_KIND[kind]):
            for rep in range(reps if tk != "sigfree_opcodes" else (8 if tier == "quick" else 48)):
                n = 1 if kind in ("p2pkh", "p2wpkh", "p2sh_p2wpkh", "p2tr_key") else r.choice([2, 3])
                spec = {"kind": kind, "txid": "%064x" % r.getrandbits(256), "vout": r.randrange(3), "sequence": 0xFFFFFFFE, "amount": 100000 + r.randrange(1000), "keys": r.sample(range(8), n)}
                if n > 1:
                    spec["m"] = 2
                    if kind == "p2tr_script":
                        spec["internal"] = r.randrange(8)
                elif kind == "p2tr_script":
                    spec["m"] = 1
                    spec["internal"] = r.randrange(8)
                if kind in ("p2tr_key", "p2tr_script") and (rep % 2 == 1 or (tier == "quick" and r.random() < 0.3)):
                    spec["annex"] = "50" + "%02x" % r.randrange(256)
                if kind in ("p2pkh", "p2sh_ms") and (tki + rep) % 3 == 2:
                    spec["unc"] = True
                t = {"op": "transmit", "i": 0}
                if tk != "none":
                    t["mut"] = {"kind": "flip" if tk == "flip_ss" else tk, "a": (r.randrange(10000) if tk != "sigfree_opcodes" else rep * 3 + 1 + (rep % 2)), "b": (r.randrange(256) if tk != "sigfree_opcodes" else rep), "region": "ss" if tk == "flip_ss" else "w"}
                yield {"version": 2, "locktime": 0, "inputs": [spec], "outputs": [{"amount": 90000, "spk": tm.spk_p2wpkh(bytes(20)).hex()}, {"amount": 5000, "spk": tm.spk_p2pkh(bytes(20)).hex()}],
                       "steps": [{"op": "sign", "i": 0, "ht": r.choice([0, 1, 3, 0x81]), "pick": r.randrange(1000), "partial_first": kind == "p2tr_script" and rep % 2 == 0, "extra_signer": kind == "p2tr_script" and tk == "none"}, t], "enum": "catalogue"}
    # sighash byte changed in bits no defined type uses: every ECDSA kind x six bit patterns
    for kind in ("p2pkh", "p2sh_ms", "p2wpkh", "p2sh_p2wpkh", "p2wsh_ms", "p2sh_p2wsh_ms"):
        for v in range(6):
            n = 1 if kind in ("p2pkh", "p2wpkh", "p2sh_p2wpkh") else 2
            spec = {"kind": kind, "txid": "%064x" % r.getrandbits(256), "vout": 0, "sequence": 0xFFFFFFFE, "amount": 100000, "keys": r.sample(range(8), n)}
            if n > 1:
                spec["m"] = n
            yield {"version": 2, "locktime": 0, "inputs": [spec], "outputs": [{"amount": 90000, "spk": tm.spk_p2wpkh(bytes(20)).hex()}],
                   "steps": [{"op": "sign", "i": 0, "ht": 1, "pick": v}, {"op": "transmit", "i": 0, "mut": {"kind": "retag", "a": v, "b": v, "region": "w", "undefined": True}}], "enum": "retag-undefined-bits"}
    # signed, then one committed (or uncommitted) field changed, then verified: every output type x every hash type x edits of the OTHER
    # input's outpoint / sequence (what hashPrevouts / hashSequence commit to depends on the hash type); the other edits rotate through the
    # hash types in the quick tier and are a full product in the thorough tier. The expected verdict is the reference's.
    r2 = plan_rng(seed, "enum-c06-edits")
    EDS = [{"e": "in_outpoint", "i": 1, "txid": "ab" * 32, "vout": 1}, {"e": "in_sequence", "i": 1, "v": 5}, {"e": "in_outpoint", "i": 0, "txid": "cd" * 32, "vout": 0}, {"e": "in_sequence", "i": 0, "v": 7},
           {"e": "out_amount", "j": 0, "v": 89999}, {"e": "out_amount", "j": 1, "v": 4999}, {"e": "out_script", "j": 1, "spk": tm.spk_p2wpkh(b"\x01" * 20).hex()},
           {"e": "out_append", "v": 1, "spk": tm.spk_p2pkh(b"\x02" * 20).hex()}, {"e": "out_remove", "j": 1}, {"e": "locktime", "v": 1}, {"e": "version", "v": 1}, {"e": "spent_amount", "i": 0, "v": 100001},
           {"e": "in_append", "spec": {"kind": "p2wpkh", "txid": "ef" * 32, "vout": 0, "sequence": 0xFFFFFFFF, "amount": 700, "keys": [0]}}]
    for ki, kind in enumerate(KINDS):
        hts = [1, 2, 3, 0x81, 0x82, 0x83] + ([0] if kind in ("p2tr_key", "p2tr_script") else [])
        for hi, ht in enumerate(hts):
            for ei, ed in enumerate(EDS):
                if tier == "quick" and ei >= 2 and (ki + hi + ei) % len(hts) != 0:
                    continue
                n = 1 if kind in ("p2pkh", "p2wpkh", "p2sh_p2wpkh", "p2tr_key") else 2
                spec = {"kind": kind, "txid": "%064x" % r2.getrandbits(256), "vout": 0, "sequence": 0xFFFFFFFE, "amount": 100000, "keys": r2.sample(range(8), n)}
                if n > 1 or kind == "p2tr_script":
                    spec["m"] = n
                    if kind == "p2tr_script":
                        spec["internal"] = r2.randrange(8)
                other = {"kind": "p2wpkh", "txid": "%064x" % r2.getrandbits(256), "vout": 2, "sequence": 0xFFFFFFFD, "amount": 5000, "keys": [r2.randrange(8)]}
                # the signed input is the first or the second of the two
                first = (ki + hi + ei) % 2 == 0
                inputs = [spec, other] if first else [other, spec]
                si = 0 if first else 1
                e2 = dict(ed, op="edit")
                if "i" in e2 and ed["e"] != "in_append":
                    e2["i"] = si if ed["i"] == 0 else 1 - si
                if "j" in e2:
                    e2["j"] = si if ed["j"] == 0 else 1 - si
                yield {"version": 2, "locktime": 0, "inputs": inputs, "outputs": [{"amount": 90000, "spk": tm.spk_p2wpkh(bytes(20)).hex()}, {"amount": 5000, "spk": tm.spk_p2pkh(bytes(20)).hex()}],
                       "steps": [({"op": "sign", "i": si, "ht": ht, "pick": ei} if ht == 1 or kind in ("p2tr_key", "p2tr_script") else {"op": "refsign", "i": si, "hts": [ht], "pick": ei}),
                                 {"op": "verify", "i": si}, e2, {"op": "verify", "i": si, "cross": True}], "enum": "signed-then-edited"}
    # degenerate signature values in every signature slot: every variant x every kind
    for kind in KINDS:
        for v in range(5):
            n = 1 if kind in ("p2pkh", "p2wpkh", "p2sh_p2wpkh", "p2tr_key") else 2
            spec = {"kind": kind, "txid": "%064x" % r.getrandbits(256), "vout": 0, "sequence": 0xFFFFFFFE, "amount": 100000, "keys": r.sample(range(8), n)}
            if n > 1 or kind == "p2tr_script":
                spec["m"] = n
                if kind == "p2tr_script":
                    spec["internal"] = r.randrange(8)
            yield {"version": 2, "locktime": 0, "inputs": [spec], "outputs": [{"amount": 90000, "spk": tm.spk_p2wpkh(bytes(20)).hex()}],
                   "steps": [{"op": "sign", "i": 0, "ht": 1 if kind not in ("p2tr_key", "p2tr_script") else 0, "pick": v}, {"op": "transmit", "i": 0, "mut": {"kind": "degenerate_sig", "a": v, "b": 0, "region": "w"}}], "enum": "degenerate-sig"}
    # witness-program splices: every variant x every kind it applies to, several key sets (the effect depends on key bytes)
    for kind in KINDS:
        for v in range(6):
            for rep in range(4 if tier == "quick" else 24):
                n = 1 if kind in ("p2pkh", "p2wpkh", "p2sh_p2wpkh", "p2tr_key") else 2
                spec = {"kind": kind, "txid": "%064x" % r.getrandbits(256), "vout": 0, "sequence": 0xFFFFFFFE, "amount": 100000, "keys": r.sample(range(8), n)}
                if n > 1 or kind == "p2tr_script":
                    spec["m"] = n
                    if kind == "p2tr_script":
                        spec["internal"] = r.randrange(8)
                yield {"version": 2, "locktime": 0, "inputs": [spec], "outputs": [{"amount": 90000, "spk": tm.spk_p2wpkh(bytes(20)).hex()}],
                       "steps": [{"op": "transmit", "i": 0, "mut": {"kind": "program_splice", "a": v + 6 * rep, "b": rep, "region": "w"}}], "enum": "program-splice"}
    # signature-free opcode scriptSigs, exhaustively: every catalogue sequence x every placement around the redeem script (P2SH kinds),
    # every catalogue sequence alone (other kinds); no signing needed, the tampering replaces the scriptSig
    for kind in KINDS:
        p2sh = kind in ("p2sh_ms", "p2sh_p2wpkh", "p2sh_p2wsh_ms")
        for ci in range(len(SIGFREE_CAT)):
            for place in (range(4) if p2sh else (1,)):
                n = 1 if kind in ("p2pkh", "p2wpkh", "p2sh_p2wpkh", "p2tr_key") else 2
                spec = {"kind": kind, "txid": "%064x" % r.getrandbits(256), "vout": 0, "sequence": 0xFFFFFFFE, "amount": 100000, "keys": r.sample(range(8), n)}
                if n > 1 or kind == "p2tr_script":
                    spec["m"] = n
                    if kind == "p2tr_script":
                        spec["internal"] = r.randrange(8)
                yield {"version": 2, "locktime": 0, "inputs": [spec], "outputs": [{"amount": 90000, "spk": tm.spk_p2wpkh(bytes(20)).hex()}],
                       "steps": [{"op": "transmit", "i": 0, "mut": {"kind": "sigfree_opcodes", "a": 3 * ci + 1 + 3 * len(SIGFREE_CAT) * 7 * ((ci * 5 + place) % 3), "b": place, "region": "ss"}}], "enum": "sigfree-opcodes"}


def shrink(plan):
    if len(plan["inputs"]) > 1:
        for k in range(len(plan["inputs"])):
            yield dict(plan, inputs=plan["inputs"][:k] + plan["inputs"][k + 1 :])
    if len(plan["outputs"]) > 1:
        for k in range(len(plan["outputs"])):
            yield dict(plan, outputs=plan["outputs"][:k] + plan["outputs"][k + 1 :])
    for k, spec in enumerate(plan["inputs"]):
        if spec.get("annex"):
            s2 = dict(spec)
            del s2["annex"]
            yield dict(plan, inputs=plan["inputs"][:k] + [s2] + plan["inputs"][k + 1 :])
        if len(spec["keys"]) > 1:
            s2 = dict(spec, keys=spec["keys"][:-1], m=min(spec.get("m", 1), len(spec["keys"]) - 1))
            yield dict(plan, inputs=plan["inputs"][:k] + [s2] + plan["inputs"][k + 1 :])
    for k, st in enumerate(plan["steps"]):
        if st["op"] == "verify" and (st.get("reps", 1) > 1 or st.get("cross")):
            yield dict(plan, steps=plan["steps"][:k] + [dict(st, reps=1, cross=False)] + plan["steps"][k + 1 :])
