"""W-P2P: the real buidl.network.SimpleNode on a simulated TCP byte stream against a stub peer.

Real code: SimpleNode (constructor, handshake, send, read, wait_for, get_filtered_txs, is_tx_accepted),
NetworkEnvelope, every message class, Block.parse_header, HeadersMessage.is_valid,
MerkleBlock.parse/is_valid/proved_txs, Tx.parse, BloomFilter.filterload, compact-filter messages.
Stub: the peer (built on ref/p2p, ref/merkle, ref/txmodel), the transport, clock, RNG.

Serves C19 (oracles P1..P4) and C17 (oracles M1..M3).
"""
import contextlib
import io
import struct

import buidl.network as bn
from buidl.block import Block
from buidl.bloomfilter import BloomFilter
from buidl.compactfilter import (
    CFCheckPointMessage,
    CFHeadersMessage,
    CFilterMessage,
    GetCFCheckPointMessage,
    GetCFHeadersMessage,
    GetCFiltersMessage,
)
from buidl.merkleblock import MerkleBlock
from buidl.network import (
    GenericMessage,
    GetDataMessage,
    GetHeadersMessage,
    HeadersMessage,
    NetworkEnvelope,
    PingMessage,
    PongMessage,
    SimpleNode,
    VerAckMessage,
    VersionMessage,
)
from buidl.tx import Tx

from ref import merkle as rmerkle
from ref import p2p as rp
from ref import txmodel as tm
from sim.core import EventQueue, SimDeadlock, Violation, plan_rng

WORLD = "p2p"
TIME_UNIT = "virtual seconds (discrete-event clock; network delays 0-0.5 s per segment, sleep(1) in is_tx_accepted)"

COMPONENTS = {
    "real": [
        "buidl.network.SimpleNode (connect/handshake/send/read/wait_for/get_filtered_txs/is_tx_accepted)",
        "buidl.network.NetworkEnvelope and all message classes",
        "buidl.block.Block header codec / check_pow / target / validate_merkle_root",
        "buidl.merkleblock.MerkleBlock, MerkleTree",
        "buidl.tx.Tx.parse (tx messages)",
        "buidl.bloomfilter.BloomFilter.filterload",
        "buidl.compactfilter message classes",
        "buidl.helper encode/read_varint, encode/read_varstr, int<->little/big endian, calculate_new_bits, bits_to_target",
    ],
    "stub": [
        "remote peer (ref/p2p + ref/merkle + ref/txmodel, synthetic regtest-difficulty chain)",
        "TCP transport (in-memory ordered byte stream with fragmentation, delay, EOF, corruption)",
        "socket module, time.time, sleep, randint (patched module-level names of buidl.network)",
        "buidl.block.hash256 during the pow_edge observation only (digest chosen as target-1 / target / target+1: the boundary real SHA-256 cannot be steered to)",
    ],
}

LEVEL = {"C19": "exploration", "C17": "exploration"}

RULE = {
    "C19": "plans are drawn from Chooser(VERIF_SEED/p2p/C19/index): network, clock, nonce, chain, a script of 1-8 client operations, "
    "per-operation peer chatter and one optional transport/Byzantine fault; plus an enumerated family (EOF at every byte offset and a bit flip at "
    "every byte of the responses of fixed base sessions). A run is non-trivial when at least one fault fired or peer chatter was interleaved and the "
    "client accepted or rejected at least one envelope; distinct = distinct event-log digest.",
    "C17": "plans are drawn from Chooser(VERIF_SEED/p2p/C17/index): chain of 2-12 blocks with 1-64 (thorough: up to 3000) transactions, match subsets, "
    "getheaders / filtered-block / block operations, with one optional Byzantine alteration from the property's catalogue (bit flips in proof hashes, flags, "
    "total, root; dropped/extra/swapped hashes; wrong/omitted/reordered tx; bad PoW; broken link). Non-trivial = at least one merkleblock or headers "
    "message was validated by the client; distinct = distinct event-log digest.",
}

ASSUMPTIONS = {
    "C19": [
        "reference strict parser ref/p2p.py is correct (self-tested against hand-built envelopes)",
        "BufferedReader semantics of socket.makefile('rb'): read(n) returns fewer than n bytes only at EOF",
        "TCP delivers bytes in order without loss; faults are peer behaviour, EOF and in-flight corruption",
        "version-message port byte order is checked against the protocol (network byte order)",
    ],
    "C17": [
        "ref/merkle.py (BIP37 builder, consensus root) and ref/p2p.py (SetCompact, PoW) are correct",
        "ground truth = the stub peer's own chain; interior-node-as-leaf constructions (changing total and replacing hashes together) are outside the stated catalogue",
        "merkle_root / bits / retarget arithmetic are pure and only sampled through the served chain",
    ],
}

TIERS = {
    "C19": {
        "quick": {"runs": 6000, "chunk": 100, "per_run_timeout": 60, "wall_cap": 300},
        "thorough": {"runs": 120000, "chunk": 200, "per_run_timeout": 120, "wall_cap": 2400},
    },
    "C17": {
        "quick": {"runs": 5000, "chunk": 100, "per_run_timeout": 60, "wall_cap": 300},
        "thorough": {"runs": 80000, "chunk": 200, "per_run_timeout": 300, "wall_cap": 2400},
    },
}


def nontrivial(res):
    f = sum(res["faults"].values())
    p = res["probes"]
    if p.get("c17_validated", 0) > 0:
        return True
    return (f > 0 or p.get("chatter", 0) > 0) and (p.get("accepted", 0) + p.get("rejected", 0) > 0)


# ------------------------------------------------------------------------------------------------
# chain database of the stub peer


def build_chain(cfg):
    r = plan_rng(cfg["seed"], "chain")
    bits = bytes.fromhex("ffff7f20")
    prev = r.getrandbits(256).to_bytes(32, "big")
    base_prev = prev
    blocks = []
    t = 1600000000 + r.randrange(0, 10**8)
    for bi, ntx in enumerate(cfg["txs"]):
        txs = []
        for ti in range(ntx):
            n_in = 1 if r.random() < 0.8 else r.randrange(2, 4)
            segwit = r.random() < 0.4
            ins = []
            for _ in range(n_in):
                ss = b"" if segwit else tm.script(r.getrandbits(8 * 71).to_bytes(71, "big"), b"\x02" + r.getrandbits(256).to_bytes(32, "big"))
                wit = [r.getrandbits(8 * 71).to_bytes(71, "big"), b"\x03" + r.getrandbits(256).to_bytes(32, "big")] if segwit else []
                ins.append({"txid": r.getrandbits(256).to_bytes(32, "big"), "vout": r.randrange(0, 4), "script_sig": ss,
                            "sequence": r.choice([0xFFFFFFFF, 0xFFFFFFFE, 0]), "witness": wit})
            outs = []
            for _ in range(r.randrange(1, 4)):
                h = r.getrandbits(160).to_bytes(20, "big")
                spk = r.choice([tm.spk_p2pkh(h), tm.spk_p2wpkh(h), tm.spk_p2sh(h)])
                outs.append({"amount": r.randrange(0, 21 * 10**14), "spk": spk})
            tx = {"version": r.choice([1, 2]), "ins": ins, "outs": outs, "locktime": r.choice([0, 0, 500000, 1600000000])}
            txs.append(tx)
        txids = [tm.txid(tx) for tx in txs]  # display order
        root = rmerkle.merkle_root([h[::-1] for h in txids])[::-1]
        t += r.randrange(1, 1200)
        h80 = rp.grind(r.choice([1, 2, 0x20000000, 0x20000000, 0x7FFFFFFF, 0x80000000, 0xFFFFFFFF, r.getrandbits(32)]), prev, root, t, bits, start_nonce=r.randrange(0, 2**31))
        bh = rp.header_hash(h80)
        blocks.append({"header": h80, "hash": bh, "txs": txs, "txids": txids})
        prev = bh
    return {"base_prev": base_prev, "blocks": blocks, "bits": bits}


# ------------------------------------------------------------------------------------------------
# session: transport + client instrumentation


class FakeSocketModule:
    AF_INET = 2
    SOCK_STREAM = 1

    def __init__(self, sess):
        self._sess = sess

    def socket(self, *a, **k):
        return SimSocket(self._sess)


class SimSocket:
    def __init__(self, sess):
        self.sess = sess

    def connect(self, addr):
        self.sess.trace.ev("client", "connect", f"{addr[0]}:{addr[1]}")

    def makefile(self, mode="rb", buffering=None):
        return SimStream(self.sess)

    def sendall(self, data):
        self.sess.client_write(bytes(data))

    def close(self):
        self.sess.trace.ev("client", "close")


class SimStream:
    def __init__(self, sess):
        self.sess = sess

    def read(self, n=-1):
        return self.sess.client_read(n)


class FakeTime:
    def __init__(self, sess):
        self.sess = sess

    def time(self):
        return self.sess.clock_read()


class Session:
    def __init__(self, plan, prop, trace):
        self.plan = plan
        self.prop = prop
        self.trace = trace
        self.q = EventQueue(trace)
        self.network = plan["network"]
        self.magic = rp.MAGIC[self.network]
        self.frag = plan_rng(plan["frag_seed"], "frag")
        self.frag_mode = plan.get("frag", "mixed")
        self.rx = bytearray()
        self.rx_off = 0
        self.rx_closed = False
        self.ref_off = 0
        self.to_client_t = 0.0
        self.to_peer_t = 0.0
        self.client_out = bytearray()  # everything the client wrote
        self.clog = []  # chronological client log: ("recv", cmd, payload) / ("send", cmd, payload)
        self.accepted = 0
        self.clock_reads = []
        self.rng_values = []
        self.clock_i = 0
        self.peer = None
        self.in_wait_for = False
        self.dirty = False

    # -- clock / rng seams
    def clock_read(self):
        c = self.plan["clock"]
        jumps = c.get("jumps") or [0]
        v = c["base"] + self.q.now + jumps[self.clock_i % len(jumps)]
        self.clock_i += 1
        if len(jumps) > 1:
            self.trace.fault("clock_jump")
        self.clock_reads.append(v)
        self.trace.ev("client", "time()", int(v))
        return v

    def randint(self, a, b):
        v = min(max(self.plan["nonce"], a), b)  # an adversarial but *legal* value of randint(a, b)
        if v == b:
            self.trace.fault("rng_upper_bound")
        elif v == a:
            self.trace.fault("rng_lower_bound")
        self.trace.ev("client", "randint", v)
        self.rng_values.append(v)
        return v

    def sleep(self, d):
        self.trace.ev("client", "sleep", d)
        self.q.advance(d)

    # -- transport
    def _cuts(self, n):
        if self.frag_mode == "whole" or n == 0:
            return [n] if n else []
        sizes = []
        left = n
        while left > 0:
            if self.frag_mode == "tiny":
                s = self.frag.randrange(1, 8)
            else:
                s = self.frag.choice([1, 2, 3, 4, 7, 12, 20, 24, 25, 80, 500, 1460, 100000])
                s = self.frag.randrange(1, s + 1)
            s = min(s, left)
            sizes.append(s)
            left -= s
        return sizes

    def peer_send(self, data, close_after=False):
        pos = 0
        for s in self._cuts(len(data)):
            seg = data[pos : pos + s]
            pos += s
            self.to_client_t = max(self.to_client_t, self.q.now) + self.frag.choice([0.0, 0.001, 0.02, 0.5])
            self.q.at(self.to_client_t, self._deliver_to_client, seg)
        if close_after:
            self.to_client_t = max(self.to_client_t, self.q.now) + 0.001
            self.q.at(self.to_client_t, self._close_to_client)

    def _deliver_to_client(self, seg):
        self.rx += seg
        self.trace.ev("net", "seg>client", len(seg))

    def _close_to_client(self):
        self.rx_closed = True
        self.trace.ev("net", "fin>client")

    def client_write(self, data):
        self.client_out += data
        pos = 0
        for s in self._cuts(len(data)):
            seg = data[pos : pos + s]
            pos += s
            self.to_peer_t = max(self.to_peer_t, self.q.now) + self.frag.choice([0.0, 0.001, 0.02, 0.5])
            self.q.at(self.to_peer_t, self.peer.on_bytes, seg)

    def client_read(self, n):
        if n is None or n < 0:
            raise RuntimeError("unbounded read not modelled")
        while len(self.rx) - self.rx_off < n and not self.rx_closed:
            if self.q.empty():
                self.trace.ev("client", "blocked-forever", n)
                raise SimDeadlock()
            self.q.step()
        out = bytes(self.rx[self.rx_off : self.rx_off + n])
        self.rx_off += len(out)
        return out


_TR = [None]


def fail(prop, oracle, detail, msg):
    """Route a violation through the run's trace (own property -> raise; known finding -> record; other property -> ignore)."""
    _TR[0].fail(prop, oracle, detail, msg)


class ClientHarness:
    """Wraps the real SimpleNode; records what it accepts/sends; evaluates P1 on every read."""

    def __init__(self, sess):
        self.sess = sess
        s = sess
        self.node = SimpleNode("peer.sim", network=s.network)
        node = self.node
        real_read = SimpleNode.read
        real_send = SimpleNode.send
        harness = self

        def recording_read():
            sess_ = harness.sess
            try:
                env = real_read(node)
            except SimDeadlock:
                st, _ = rp.parse_next(bytes(sess_.rx), sess_.ref_off, sess_.magic, sess_.rx_closed)
                sess_.trace.oracle("P1")
                if st != "pending":
                    fail("C19", "P1", f"blocked_while_ref_{st}", f"client blocked forever at stream offset {sess_.ref_off} but the reference parser says {st}")
                sess_.trace.probe("blocked")
                raise
            except Exception as e:
                st, info = rp.parse_next(bytes(sess_.rx), sess_.ref_off, sess_.magic, sess_.rx_closed)
                sess_.trace.oracle("P1")
                sess_.trace.ev("client", "read-raised", f"{type(e).__name__}|ref={st}")
                sess_.trace.state("read", "raised", st)
                if st == "ok":
                    fail("C19", "P1", "rejected_valid", f"client raised {type(e).__name__}: {e} on an envelope the strict reference accepts (offset {sess_.ref_off})")
                if st == "pending":
                    fail("C19", "P1", "raised_while_incomplete", f"client raised {type(e).__name__}: {e} although the envelope was still incomplete and the stream open")
                sess_.trace.probe("rejected")
                sess_.trace.probe("rejected_" + st + ("_" + info if isinstance(info, str) else ""))
                raise
            st, info = rp.parse_next(bytes(sess_.rx), sess_.ref_off, sess_.magic, sess_.rx_closed)
            sess_.trace.oracle("P1")
            sess_.trace.ev("client", "read-ok", f"{env.command!r}|{len(env.payload)}|ref={st}")
            sess_.trace.state("read", "ok", st, env.command)
            if st != "ok":
                detail = st + ("_" + info if isinstance(info, str) else "")
                fail("C19", "P1", f"accepted_{detail}", f"client accepted envelope command={env.command!r} payload_len={len(env.payload)} at stream offset {sess_.ref_off} where the strict reference says {st} {info or ''}")
                # only reached when the violation is routed elsewhere (other property's check / known finding): resynchronise
                sess_.ref_off = sess_.rx_off
                sess_.accepted += 1
                sess_.clog.append(("recv", env.command, env.payload, sess_.in_wait_for))
                return env
            raw12, payload, new_off = info
            if env.payload != payload:
                fail("C19", "P1", "payload_differs", f"client payload {env.payload[:40].hex()} != reference {payload[:40].hex()}")
            if rp.command_wellformed(raw12) and raw12[:1] != b"\x00" and env.command != raw12.rstrip(b"\x00"):
                fail("C19", "P1", "command_differs", f"client command {env.command!r} != reference {raw12!r}")
            if env.magic != sess_.magic:
                fail("C19", "P1", "magic_differs", "envelope object carries the wrong magic")
            if sess_.rx_off != new_off:
                fail("C19", "P1", "misaligned", f"client consumed up to {sess_.rx_off}, reference envelope ends at {new_off}")
            sess_.ref_off = new_off
            sess_.accepted += 1
            sess_.trace.probe("accepted")
            sess_.clog.append(("recv", env.command, env.payload, sess_.in_wait_for))
            return env

        def recording_send(message):
            payload = message.serialize()
            harness.sess.clog.append(("send", message.command, payload, harness.sess.in_wait_for))
            harness.sess.trace.ev("client", "send", f"{message.command!r}|{len(payload)}")
            return real_send(node, message)

        real_wait_for = SimpleNode.wait_for

        def flagged_wait_for(*classes):
            prev = harness.sess.in_wait_for
            harness.sess.in_wait_for = True
            try:
                return real_wait_for(node, *classes)
            finally:
                harness.sess.in_wait_for = prev

        node.read = recording_read
        node.send = recording_send
        node.wait_for = flagged_wait_for

    def wait_for(self, *classes):
        self.sess.in_wait_for = True
        start = len(self.sess.clog)
        try:
            obj = self.node.wait_for(*classes)
        finally:
            self.sess.in_wait_for = False
        # P3: the returned object is the parse of the first envelope of an awaited command accepted in this call
        recvs = [e for e in self.sess.clog[start:] if e[0] == "recv"]
        cmds = {c.command for c in classes}
        self.sess.trace.oracle("P3_wait_for")
        if not recvs or recvs[-1][1] not in cmds:
            fail("C19", "P3", "wait_for_wrong_envelope", f"wait_for returned although last accepted command was {recvs[-1][1] if recvs else None!r}")
        for e in recvs[:-1]:
            if e[1] in cmds:
                fail("C19", "P3", "wait_for_skipped", f"wait_for skipped an earlier envelope of awaited command {e[1]!r}")
        return obj, recvs[-1][2]


# ------------------------------------------------------------------------------------------------
# the stub peer


CHATTER = ["ping", "version", "inv", "sendheaders", "feefilter", "addr", "unknown", "empty_cmd", "sendcmpct"]


class Peer:
    def __init__(self, sess, chain):
        self.sess = sess
        self.chain = chain
        self.buf = bytearray()
        self.off = 0
        self.received = []  # (raw12, payload)
        self.armed = None
        self.outbound_bad = None
        self.pending_pings = []

    def arm(self, step):
        self.armed = step

    def on_bytes(self, seg):
        self.buf += seg
        self.sess.trace.ev("net", "seg>peer", len(seg))
        while True:
            st, info = rp.parse_next(bytes(self.buf), self.off, self.sess.magic, False)
            if st == "pending":
                return
            if st != "ok":
                self.outbound_bad = (st, self.off)
                return
            raw12, payload, self.off = info
            self.received.append((raw12, payload))
            cmd = raw12.rstrip(b"\x00")
            self.sess.trace.ev("peer", "recv", f"{cmd!r}|{len(payload)}")
            if self.armed is not None and cmd == self.armed["trigger"].encode():
                step = self.armed
                self.armed = None
                self.respond(step, payload)

    # -- honest responses ------------------------------------------------------------------
    def chatter_env(self, kind, r):
        if kind == "ping":
            n = r.getrandbits(64).to_bytes(8, "big")
            return (b"ping", n)
        if kind == "version":
            return (b"version", rp.enc_version(nonce=r.getrandbits(64).to_bytes(8, "big"), timestamp=r.randrange(0, 2**40)))
        if kind == "inv":
            return (b"inv", rp.enc_inv([(1, r.getrandbits(256).to_bytes(32, "big")) for _ in range(r.randrange(0, 4))]))
        if kind == "sendheaders":
            return (b"sendheaders", b"")
        if kind == "feefilter":
            return (b"feefilter", struct.pack("<Q", r.randrange(0, 10**6)))
        if kind == "addr":
            return (b"addr", b"\x00")
        if kind == "unknown":
            return (bytes(r.choice(b"abcdefghijklmnopqrstuvwxyz") for _ in range(r.randrange(1, 13))), r.getrandbits(8 * 5).to_bytes(5, "big"))
        if kind == "empty_cmd":
            return (b"", b"")
        if kind == "sendcmpct":
            return (b"sendcmpct", b"\x00" + struct.pack("<Q", 1))
        raise ValueError(kind)

    def find_block(self, h):
        for i, b in enumerate(self.chain["blocks"]):
            if b["hash"] == h:
                return i
        return None

    def honest(self, step, req):
        """-> list of [command, payload] for the triggering request."""
        op = step["op"]
        ch = self.chain
        r = plan_rng(self.sess.plan["frag_seed"], "peer" + str(step.get("id", 0)))
        if op == "handshake":
            v = (b"version", rp.enc_version(nonce=r.getrandbits(64).to_bytes(8, "big"), timestamp=r.randrange(0, 2**33), height=len(ch["blocks"])))
            return [(b"verack", b""), v] if step.get("verack_first") else [v, (b"verack", b"")]
        if op == "ping":
            return [(b"pong", req)]
        if op == "echo":
            return [(step["cmd"].encode("latin1"), req)]
        if op == "fields":
            return [(b"fields", req)]
        if op == "getheaders":
            d = rp.dec_getheaders(req)
            start = d["locators"][0] if d["locators"] else None
            idx = self.find_block(start)
            if start == ch["base_prev"]:
                first = 0
            elif idx is None:
                first = len(ch["blocks"])
            else:
                first = idx + 1
            hs = [b["header"] for b in ch["blocks"][first : first + step.get("max", 2000)]]
            return [(b"headers", rp.enc_headers(hs))]
        if op == "filtered":
            items = rp.dec_getdata(req)
            out = []
            for (t, h), match in zip(items, step["match"]):
                bi = self.find_block(h)
                if bi is None:
                    out.append((b"notfound", rp.enc_inv([(t, h)])))
                    continue
                b = ch["blocks"][bi]
                flags = [i in match for i in range(len(b["txids"]))]
                total, hashes, fb, _ = rmerkle.build_partial([x[::-1] for x in b["txids"]], flags)
                out.append((b"merkleblock", rp.enc_merkleblock(b["header"], total, hashes, fb)))
                for i in sorted(match):
                    if i < len(b["txs"]):
                        out.append((b"tx", tm.ser_tx(b["txs"][i], witness=None if step.get("tx_witness") else False)))
            return out
        if op == "tx_accepted":
            items = rp.dec_getdata(req)
            out = []
            for t, h in items:
                found = None
                for b in ch["blocks"]:
                    for tx, tid in zip(b["txs"], b["txids"]):
                        if tid == h:
                            found = tx
                if found is not None:
                    out.append((b"tx", tm.ser_tx(found, witness=False)))
                else:
                    out.append((b"notfound", rp.enc_inv([(t, h)])))
            return out
        if op == "block":
            items = rp.dec_getdata(req)
            out = []
            for t, h in items:
                bi = self.find_block(h)
                if bi is not None:
                    b = ch["blocks"][bi]
                    out.append((b"block", b["header"] + tm.compact_size(len(b["txs"])) + b"".join(tm.ser_tx(x) for x in b["txs"])))
            return out
        if op == "cfilters":
            d = rp.dec_getcf(req)
            out = []
            for k in range(step["count"]):
                bh = r.getrandbits(256).to_bytes(32, "big")
                out.append((b"cfilter", rp.enc_cfilter(d["type"], bh, bytes.fromhex(step["filters"][k % len(step["filters"])]))))
            return out
        if op == "cfheaders":
            d = rp.dec_getcf(req)
            fh = [r.getrandbits(256).to_bytes(32, "big") for _ in range(step["count"])]
            return [(b"cfheaders", rp.enc_cfheaders(d["type"], d["stop"], r.getrandbits(256).to_bytes(32, "big"), fh))]
        if op == "cfcheckpt":
            d = rp.dec_getcf(req, with_height=False)
            fh = [r.getrandbits(256).to_bytes(32, "big") for _ in range(step["count"])]
            return [(b"cfcheckpt", rp.enc_cfcheckpt(d["type"], d["stop"], fh))]
        if op == "retarget":
            # three headers: first and last of a 2016-block period (bits B, timestamps T0 and T0 + span) and the first header of the
            # next period, whose bits the peer computes with the consensus formula (the proof of work of these headers is not the point)
            b0 = bytes.fromhex(step["bits"])
            t0 = step["t0"]
            nb = rp.retarget(b0, step["span"])
            if step.get("lie"):
                nbb = bytearray(nb)
                nbb[step["lie"] % 3] ^= 1 << (step["lie"] % 8)
                nb = bytes(nbb)
                self.sess.trace.fault("retarget_lie")
            prev = r.getrandbits(256).to_bytes(32, "big")
            hs = []
            for (tt, bb) in ((t0, b0), ((t0 + step["span"]) % 2**32, b0), ((t0 + step["span"] + 600) % 2**32, nb)):
                h = rp.header80(2, prev, r.getrandbits(256).to_bytes(32, "big"), tt, bb, r.getrandbits(32).to_bytes(4, "big"))
                hs.append(h)
                prev = rp.header_hash(h)
            return [(b"headers", rp.enc_headers(hs))]
        if op in ("send_version", "raw_send", "header_edits", "proof_edits"):
            return []
        raise ValueError(op)

    # -- Byzantine alterations on structured responses (C17 catalogue) -----------------------
    def alter(self, step, envs, fault):
        kind = fault["kind"]
        tr = self.sess.trace
        ch = self.chain

        def idx_of(cmd, nth=0):
            c = [i for i, e in enumerate(envs) if e[0] == cmd]
            return c[nth % len(c)] if c else None

        if kind.startswith("mb_"):
            i = idx_of(b"merkleblock", fault.get("nth", 0))
            if i is None:
                return envs
            p = envs[i][1]
            r = tm.Reader(p)
            h80 = r.take(80)
            total = r.u32()
            hashes = [r.take(32) for _ in range(r.compact())]
            fb = bytearray(r.varbytes())
            a = fault.get("a", 0)
            b = fault.get("b", 0)
            if kind == "mb_flip_hash" and hashes:
                j = a % len(hashes)
                hb = bytearray(hashes[j])
                hb[(b // 8) % 32] ^= 1 << (b % 8)
                hashes[j] = bytes(hb)
            elif kind == "mb_flip_flag" and fb:
                fb[(a // 8) % len(fb)] ^= 1 << (a % 8)
            elif kind == "mb_flip_total":
                # bits 0..16 only: MerkleTree(total) allocates O(total) nodes up front, so a flipped high bit is a
                # memory-exhaustion attack on the client (noted in DESIGN.md section 9.4), not a verdict this oracle can observe
                total ^= 1 << (a % 17)
            elif kind == "mb_flip_root":
                hb = bytearray(h80)
                hb[36 + (a // 8) % 32] ^= 1 << (a % 8)
                h80 = bytes(hb)
            elif kind == "mb_interior_as_leaves":
                # the peer presents the block's first interior level as if it were the list of transactions: a proof for
                # total' = ceil(total / 2) "transactions", all matched, whose leaves are hashes of PAIRS of transactions.
                # It reaches the genuine merkle root; what it "proves" are interior nodes, not transaction ids.
                blk = next((x for x in ch["blocks"] if x["header"] == h80), None)
                if blk is None or len(blk["txids"]) < 2:
                    return envs
                lv = [x[::-1] for x in blk["txids"]]
                if len(lv) % 2:
                    lv.append(lv[-1])
                lvl1 = [tm.sha256d(lv[j] + lv[j + 1]) for j in range(0, len(lv), 2)]
                total, hashes, fb2, _ = rmerkle.build_partial(lvl1, [True] * len(lvl1))
                fb = bytearray(fb2)
            elif kind == "mb_drop_hash" and hashes:
                hashes = hashes[:-1]
            elif kind == "mb_extra_hash":
                hashes = hashes + [plan_rng(a, "x").getrandbits(256).to_bytes(32, "big")]
            elif kind == "mb_swap_hashes" and len(hashes) >= 2:
                j = a % len(hashes)
                k = b % len(hashes)
                if j == k:
                    k = (k + 1) % len(hashes)
                hashes[j], hashes[k] = hashes[k], hashes[j]
            elif kind == "mb_wrong_block":
                others = [x for x in ch["blocks"] if x["header"] != h80]
                if others:
                    ob = others[a % len(others)]
                    flags = [(b >> (i % 30)) & 1 == 1 for i in range(len(ob["txids"]))]
                    total, hashes, fb2, _ = rmerkle.build_partial([x[::-1] for x in ob["txids"]], flags)
                    fb = bytearray(fb2)
                    h80 = ob["header"]
            else:
                return envs
            tr.fault(kind)
            envs = list(envs)
            envs[i] = (b"merkleblock", rp.enc_merkleblock(h80, total, hashes, bytes(fb)))
            return envs
        if kind.startswith("tx_"):
            txi = [i for i, e in enumerate(envs) if e[0] == b"tx"]
            a = fault.get("a", 0)
            if kind == "tx_wrong":
                if not txi:
                    return envs
                i = txi[a % len(txi)]
                foreign = {"version": 1, "ins": [{"txid": bytes(32), "vout": a % 7, "script_sig": b"\x51", "sequence": 0xFFFFFFFF, "witness": []}],
                           "outs": [{"amount": 1 + a, "spk": tm.spk_p2pkh(bytes(20))}], "locktime": 0}
                envs = list(envs)
                envs[i] = (b"tx", tm.ser_tx(foreign))
            elif kind == "tx_omit":
                if not txi:
                    return envs
                i = txi[a % len(txi)]
                envs = envs[:i] + envs[i + 1 :]
            elif kind == "tx_reorder":
                if len(txi) < 2:
                    return envs
                i, j = txi[a % len(txi)], txi[(a + 1) % len(txi)]
                envs = list(envs)
                envs[i], envs[j] = envs[j], envs[i]
            elif kind == "tx_unmatched":
                # a transaction of the block that was not matched, in place of a matched one
                if not txi:
                    return envs
                cand = [tx for b in ch["blocks"] for tx in b["txs"]]
                i = txi[a % len(txi)]
                envs = list(envs)
                envs[i] = (b"tx", tm.ser_tx(cand[a % len(cand)], witness=False))
            else:
                return envs
            tr.fault(kind)
            return envs
        if kind.startswith("hdr_"):
            i = idx_of(b"headers")
            if i is None:
                return envs
            r = tm.Reader(envs[i][1])
            n = r.compact()
            hs = []
            for _ in range(n):
                hs.append(r.take(80))
                r.compact()
            if not hs:
                return envs
            a = fault.get("a", 0)
            k = a % len(hs)
            d = rp.dec_header(hs[k])
            counts = [0] * len(hs)
            if kind == "hdr_bad_pow":
                hs[k] = rp.grind(d["version"], d["prev"], d["root"], d["time"], d["bits"], start_nonce=a, want_valid=False)
            elif kind == "hdr_break_link":
                newprev = bytearray(d["prev"])
                newprev[a % 32] ^= 1 << (a % 8)
                hs[k] = rp.grind(d["version"], bytes(newprev), d["root"], d["time"], d["bits"], start_nonce=a)
            elif kind == "hdr_hard_bits":
                # difficulty the header cannot meet (mainnet-like bits)
                hs[k] = rp.header80(d["version"], d["prev"], d["root"], d["time"], bytes.fromhex("ffff001d"), d["nonce"])
            elif kind == "hdr_weird_bits":
                # a header whose compact target is negative / overflows / is zero (never valid), with a nonce whose hash is small
                # enough for a reader that took the mantissa's sign bit as magnitude; the rest of the batch is re-mined on top of it
                wb = WEIRD_BITS[fault.get("b", 0) % len(WEIRD_BITS)]
                n_ = a
                while True:
                    cand = rp.header80(d["version"], d["prev"], d["root"], d["time"], wb, struct.pack("<I", n_ & 0xFFFFFFFF))
                    if int.from_bytes(tm.sha256d(cand), "little") < (1 << 254):
                        break
                    n_ += 1
                hs[k] = cand
                prev = rp.header_hash(cand)
                for j in range(k + 1, len(hs)):
                    dj = rp.dec_header(hs[j])
                    hs[j] = rp.grind(dj["version"], prev, dj["root"], dj["time"], dj["bits"], start_nonce=a)
                    prev = rp.header_hash(hs[j])
            elif kind == "hdr_txcount":
                counts[k] = 1 + a % 3
            elif kind == "hdr_relink_valid":
                # re-mine header k and everything after it on a different prev: still a valid chain segment from k on, linkage broken at k only
                newprev = plan_rng(a, "p").getrandbits(256).to_bytes(32, "big")
                prev = newprev
                for j in range(k, len(hs)):
                    dj = rp.dec_header(hs[j])
                    hs[j] = rp.grind(dj["version"], prev, dj["root"], dj["time"], dj["bits"], start_nonce=a)
                    prev = rp.header_hash(hs[j])
            else:
                return envs
            tr.fault(kind)
            out = tm.compact_size(len(hs))
            for h, c in zip(hs, counts):
                out += h + tm.compact_size(c)
            envs = list(envs)
            envs[i] = (b"headers", out)
            return envs
        if kind == "blk_alter_tx":
            i = idx_of(b"block")
            if i is None:
                return envs
            p = bytearray(envs[i][1])
            if len(p) > 90:
                pos = 81 + 4 + fault.get("a", 0) % (len(p) - 90)
                p[pos] ^= 1 << (fault.get("b", 0) % 8)
                tr.fault(kind)
                envs = list(envs)
                envs[i] = (b"block", bytes(p))
            return envs
        return envs

    def respond(self, step, req):
        sess = self.sess
        tr = sess.trace
        r = plan_rng(sess.plan["frag_seed"], "chat" + str(step.get("id", 0)))
        envs = [list(self.chatter_env(k, r)) for k in step.get("pre", [])]
        n_pre = len(envs)
        honest = [list(e) for e in self.honest(step, req)]
        fault = step.get("fault")
        if fault and fault["kind"].split("_")[0] in ("mb", "tx", "hdr", "blk"):
            honest = [list(e) for e in self.alter(step, [tuple(e) for e in honest], fault)]
        envs += honest
        envs += [list(self.chatter_env(k, r)) for k in step.get("post", [])]
        if n_pre or step.get("post"):
            tr.probe("chatter", n_pre + len(step.get("post", [])))
        # envelope-level faults
        wire = []
        close_after = False
        target = None
        if fault and fault["kind"] in ("wrong_magic", "bad_checksum", "lie_long", "lie_short_consistent", "lie_short", "dup_env", "drop_env") and envs:
            target = fault.get("j", 0) % len(envs)
        for j, (cmd, payload) in enumerate(envs):
            magic = sess.magic
            kw = {}
            if j == target:
                k = fault["kind"]
                if k == "wrong_magic":
                    others = [m for n_, m in sorted(rp.MAGIC.items()) if m != sess.magic] + [bytes([sess.magic[0] ^ 1]) + sess.magic[1:], sess.magic[:3] + bytes([sess.magic[3] ^ 0x80])]
                    magic = others[fault.get("a", 0) % len(others)]
                    tr.fault("wrong_magic")
                elif k == "bad_checksum":
                    c = bytearray(tm.sha256d(payload)[:4])
                    c[fault.get("a", 0) % 4] ^= 1 << (fault.get("b", 0) % 8)
                    kw["checksum"] = bytes(c)
                    tr.fault("bad_checksum")
                elif k == "lie_long":
                    # declares more bytes than are sent, checksum over what is sent, then the peer closes
                    kw["declared_len"] = len(payload) + 1 + fault.get("a", 0) % 200
                    close_after = True
                    tr.fault("lie_long")
                elif k == "lie_short_consistent":
                    cut = fault.get("a", 0) % (len(payload) + 1)
                    kw["declared_len"] = cut
                    kw["checksum"] = tm.sha256d(payload[:cut])[:4]
                    tr.fault("lie_short_consistent")
                elif k == "lie_short":
                    if payload:
                        kw["declared_len"] = fault.get("a", 0) % len(payload)
                        tr.fault("lie_short")
                elif k == "drop_env":
                    tr.fault("drop_env")
                    continue
            b = rp.envelope(magic, cmd, payload, **kw)
            wire.append(b)
            if j == target and fault["kind"] == "dup_env":
                wire.append(b)
                tr.fault("dup_env")
            if close_after:
                break
        data = b"".join(wire)
        # byte-level faults
        if fault:
            k = fault["kind"]
            if k == "eof_at":
                cut = fault["k"] if fault.get("abs") else fault["k"] % (len(data) + 1)
                cut = min(cut, len(data))
                data = data[:cut]
                close_after = True
                tr.fault("eof_at")
                # where did the cut land?
                off = 0
                for w in wire:
                    if off < cut < off + len(w):
                        tr.probe("eof_inside_header" if cut - off < 24 else "eof_inside_payload")
                    elif cut == off + len(w) or cut == 0:
                        tr.probe("eof_at_boundary")
                    off += len(w)
            elif k == "flip" and data:
                pos = fault["k"] if fault.get("abs") else fault["k"] % len(data)
                if pos < len(data):
                    bb = bytearray(data)
                    bb[pos] ^= 1 << (fault.get("bit", 0) % 8)
                    data = bytes(bb)
                    tr.fault("flip")
                    off = 0
                    for w in wire:
                        if off <= pos < off + len(w):
                            rel = pos - off
                            tr.probe("flip_in_" + ("magic" if rel < 4 else "command" if rel < 16 else "length" if rel < 20 else "checksum" if rel < 24 else "payload"))
                        off += len(w)
            elif k == "garbage_after":
                data += plan_rng(fault.get("a", 0), "g").getrandbits(8 * 30).to_bytes(30, "big")
                close_after = True
                tr.fault("garbage_after")
            elif k == "close_after":
                close_after = True
                tr.fault("close_after")
        tr.ev("peer", "respond", f"{step['op']}|{len(envs)}|{len(data)}|{close_after}")
        sess.peer_send(data, close_after=close_after)


# ------------------------------------------------------------------------------------------------
# executing a plan


def lib_header80(b):
    return rp.header80(b.version, b.prev_block, b.merkle_root, b.timestamp, b.bits, b.nonce)


def check_headers_msg(sess, hm, payload):
    """M3 + layout: library objects re-encode to the accepted payload; verdicts equal the reference."""
    tr = sess.trace
    r = tm.Reader(payload)
    n = r.compact()
    hs = []
    for _ in range(n):
        hs.append(r.take(80))
        r.compact()
    if len(hm.headers) != n:
        fail("C19", "P3", "headers_count", f"parsed {len(hm.headers)} headers, payload has {n}")
    if rp.enc_headers(hs) != payload:
        # the headers layout is count, then (80-byte header, transaction count 0) per entry, nothing else
        fail("C19", "P3", "headers_payload_not_in_layout", "a headers payload that is not in the protocol's layout (non-zero transaction count after a header, or trailing bytes) was decoded into a HeadersMessage")
    for k, (b, h) in enumerate(zip(hm.headers, hs)):
        d = rp.dec_header(h)
        if (b.version, b.prev_block, b.merkle_root, b.timestamp, b.bits, b.nonce) != (d["version"], d["prev"], d["root"], d["time"], d["bits"], d["nonce"]):
            fail("C19", "P3", "header_fields", f"header {k} decodes to other field values than the protocol layout gives (version {b.version} vs {d['version']}, time {b.timestamp} vs {d['time']})")
            continue
        try:
            ser = b.serialize()
        except SimDeadlock:
            raise
        except Exception as e:
            fail("C19", "P3", "header_fields", f"header {k} cannot be re-serialised: {type(e).__name__}: {e}")
            continue
        if ser != h:
            fail("C19", "P3", "header_fields", f"header {k} does not re-encode to the received 80 bytes")
        if b.hash() != rp.header_hash(h):
            fail("C17", "M3", "header_hash", f"header {k} hash differs from double-SHA256")
        t, neg, ovf = rp.compact_to_target(h[72:76])
        size = h[75]
        if not neg and not ovf and size >= 3:
            if b.target() != t:
                fail("C17", "M3", "target", f"bits {h[72:76].hex()} -> {b.target()} != consensus {t}")
        if bool(b.check_pow()) != rp.pow_ok(h):
            fail("C17", "M3", "check_pow", f"header {k} check_pow={b.check_pow()} reference={rp.pow_ok(h)} bits={h[72:76].hex()}")
    ref_valid = all(rp.pow_ok(h) for h in hs) and all(rp.dec_header(hs[k])["prev"] == rp.header_hash(hs[k - 1]) for k in range(1, n))
    got = hm.is_valid()
    tr.oracle("M3")
    tr.probe("c17_validated")
    tr.probe("headers_valid" if ref_valid else "headers_invalid")
    tr.state("headers", n, ref_valid)
    if bool(got) != ref_valid:
        fail("C17", "M3", "headers_is_valid_" + ("accepts_invalid" if got else "rejects_valid"), f"HeadersMessage.is_valid()={got} but reference says {ref_valid} for {n} headers")
    return hs, ref_valid


def run_step(sess, cl, peer, step, prop):
    """Execute one client operation. Returns ("ok", info) | ("raised", exc) | ("blocked", None)."""
    tr = sess.trace
    op = step["op"]
    node = cl.node
    chain = peer.chain
    # requests of earlier operations must have reached the peer before it is armed for this one
    while len(peer.buf) < len(sess.client_out) and not sess.q.empty():
        sess.q.step()
    peer.arm(step)
    tr.ev("client", "op", op)
    tr.state("op", op, (step.get("fault") or {}).get("kind"))
    if op == "handshake":
        sess.in_wait_for = False
        # SimpleNode.handshake = send(VersionMessage()) + wait_for(VerAckMessage); run the real method
        n_clock = len(sess.clock_reads)
        sess.in_wait_for = True
        try:
            node.handshake()
        finally:
            sess.in_wait_for = False
        # P2: the version message on the wire carries the seam's values
        sent = [e for e in sess.clog if e[0] == "send" and e[1] == b"version"]
        d = rp.dec_version(sent[-1][2])
        tr.oracle("P2_version")
        if d["timestamp"] != int(sess.clock_reads[n_clock]) % (1 << 64):
            fail("C19", "P2", "version.timestamp", f"timestamp on wire {d['timestamp']} != clock {sess.clock_reads[n_clock]}")
        if d["nonce"] != sess.rng_values[-1].to_bytes(8, "little"):
            fail("C19", "P2", "version.nonce", "nonce on wire differs from RNG value")
        if d["version"] != 70015 or d["user_agent"] != b"/programmingblockchain:0.1/" or d["relay"] != 1:
            fail("C19", "P2", "version.defaults", f"unexpected defaults {d}")
        if d["recv_port"] != 8333:
            fail("C19", "P2", "version.port_byte_order", f"receiver port on the wire is {d['recv_port_raw'].hex()} (protocol: network byte order for 8333 = 208d)")
        return
    if op == "ping":
        nonce = bytes.fromhex(step["nonce"])
        node.send(PingMessage(nonce))
        obj, payload = cl.wait_for(PongMessage)
        tr.oracle("P3_pong")
        if obj.nonce != payload or obj.serialize() != payload:
            fail("C19", "P3", "pong_fields", "PongMessage does not carry the received nonce")
        if not sess.dirty and payload != nonce:
            fail("C19", "P3", "pong_nonce", "honest pong carried another nonce")
        return
    if op == "echo":
        cmd = step["cmd"].encode("latin1")
        payload = plan_rng(step["pseed"], "echo").getrandbits(8 * step["plen"]).to_bytes(step["plen"], "big") if step["plen"] else b""
        node.send(GenericMessage(cmd, payload))
        # read until the echo comes back (chatter may precede it)
        while True:
            env = node.read()
            if env.command == cmd and env.payload == payload:
                break
            # anything else is chatter or a leftover of an earlier step; an echo that never arrives ends in P4 (blocked)
        # re-serialising the parsed envelope gives the delivered bytes
        tr.oracle("P3_echo")
        if env.serialize() != rp.envelope(sess.magic, cmd, payload):
            fail("C19", "P3", "envelope_reserialize", "NetworkEnvelope.serialize() of a parsed envelope differs from the strict encoding")
        tr.probe(f"echo_len_class_{min(len(payload).bit_length(), 18)}")
        return
    if op == "fields":
        # a record of primitive fields (compact sizes, var-strings, fixed-width LE/BE integers) encoded by the library, carried in an
        # envelope, echoed by the peer, and decoded field by field from the received payload stream with the library's readers:
        # the bytes are the protocol's (reference encoder), every value comes back, and the stream is consumed exactly
        from buidl import helper as bh

        items = step["items"]
        enc = b""
        want = b""
        for it in items:
            k, v = it[0], it[1]
            if k == "vi":
                enc += bh.encode_varint(v)
                want += tm.compact_size(v)
            elif k == "vs":
                b_ = plan_rng(v, "vs").getrandbits(8 * it[2]).to_bytes(it[2], "big") if it[2] else b""
                enc += bh.encode_varstr(b_)
                want += tm.compact_size(len(b_)) + b_
            elif k == "le":
                enc += bh.int_to_little_endian(v, it[2])
                want += v.to_bytes(it[2], "little")
            elif k == "be":
                enc += bh.int_to_big_endian(v, it[2])
                want += v.to_bytes(it[2], "big")
        tr.oracle("P2_fields")
        if enc != want:
            fail("C19", "P2", "primitive_field_encoding", f"library encoding of the record {[(i[0], i[1] if i[0] != 'vs' else i[2]) for i in items]} differs from the protocol's byte layout")
            return
        cmd = b"fields"
        node.send(GenericMessage(cmd, enc))
        while True:
            env = node.read()
            if env.command == cmd and env.payload == enc:
                break
        st_ = io.BytesIO(env.payload)
        tr.oracle("P3_fields")
        for n_, it in enumerate(items):
            k, v = it[0], it[1]
            try:
                if k == "vi":
                    got, exp = bh.read_varint(st_), v
                elif k == "vs":
                    got = bh.read_varstr(st_)
                    exp = plan_rng(v, "vs").getrandbits(8 * it[2]).to_bytes(it[2], "big") if it[2] else b""
                elif k == "le":
                    got, exp = bh.little_endian_to_int(st_.read(it[2])), v
                else:
                    got, exp = bh.big_endian_to_int(st_.read(it[2])), v
            except Exception as e:
                fail("C19", "P3", "primitive_field_decode_raised", f"decoding field {n_} ({k}) of an echoed record raised {type(e).__name__}: {e}")
                return
            if got != exp:
                fail("C19", "P3", "primitive_field_decode", f"field {n_} ({k}, width class {len(tm.compact_size(v)) if k == 'vi' else it[2]}) of an echoed record decodes to {got if k != 'vs' else len(got)}, sent {exp if k != 'vs' else len(exp)}; earlier fields: {[(i[0]) for i in items[:n_]]}")
                return
            if k == "vi":
                tr.probe(f"varint_width_{len(tm.compact_size(v))}")
        if st_.read() != b"":
            fail("C19", "P3", "primitive_field_stream_not_consumed", "bytes left in the payload stream after decoding every field of the record")
        return
    if op == "send_version":
        f = step["fields"]
        vm = VersionMessage(
            version=f["version"], services=f["services"], timestamp=f["timestamp"], receiver_services=f["rs"], receiver_ip=bytes.fromhex(f["rip"]),
            receiver_port=f["rport"], sender_services=f["ss"], sender_ip=bytes.fromhex(f["sip"]), sender_port=f["sport"], nonce=bytes.fromhex(f["nonce"]),
            user_agent=bytes.fromhex(f["ua"]), latest_block=f["height"], relay=f["relay"],
        )
        node.send(vm)
        d = rp.dec_version(sess.clog[-1][2])
        tr.oracle("P2_version")
        exp = {"version": f["version"], "services": f["services"], "timestamp": f["timestamp"], "recv_services": f["rs"], "send_services": f["ss"],
               "nonce": bytes.fromhex(f["nonce"]), "user_agent": bytes.fromhex(f["ua"]), "latest_block": f["height"], "relay": 1 if f["relay"] else 0,
               "recv_ip16": b"\x00" * 10 + b"\xff\xff" + bytes.fromhex(f["rip"]), "send_ip16": b"\x00" * 10 + b"\xff\xff" + bytes.fromhex(f["sip"])}
        for k, v in exp.items():
            if d[k] != v:
                fail("C19", "P2", "version." + k, f"version field {k}: wire {d[k]!r} != given {v!r}")
        if d["recv_port"] != f["rport"] or struct.unpack(">H", d["send_port_raw"])[0] != f["sport"]:
            fail("C19", "P2", "version.port_byte_order", f"ports on the wire {d['recv_port_raw'].hex()}/{d['send_port_raw'].hex()} are not network byte order of {f['rport']}/{f['sport']}")
        tr.probe("ua_len_class_" + ("ge_fd" if len(exp["user_agent"]) >= 0xFD else "lt_fd"))
        return
    if op == "getheaders":
        if step.get("start") == "base":
            start = chain["base_prev"]
        else:
            start = chain["blocks"][step["start"] % len(chain["blocks"])]["hash"]
        if step.get("num_hashes", 1) != 1:
            # the count field is a constructor argument; the message holds one locator hash: whatever count the caller passes, the
            # client either refuses or emits a payload in the protocol's layout (count == number of hashes that follow)
            tr.fault("getheaders_count_argument")
            try:
                raw_ = GetHeadersMessage(version=70015, num_hashes=step["num_hashes"], start_block=start).serialize()
            except Exception:
                raw_ = None
                tr.probe("getheaders_count_refused")
            tr.oracle("P2_getheaders_count")
            if raw_ is not None:
                try:
                    d_ = rp.dec_getheaders(raw_)
                    okc = d_["locators"] == [start] and d_["stop"] == bytes(32)
                except Exception:
                    okc = False
                if not okc:
                    fail("C19", "P2", "getheaders_count_layout", f"GetHeadersMessage(num_hashes={step['num_hashes']}) serialises to {len(raw_)} bytes that are not the getheaders layout (count field does not match the hashes that follow)")
        gm = GetHeadersMessage(version=step.get("version", 70015), start_block=start, end_block=bytes.fromhex(step["stop"]) if step.get("stop") else None)
        node.send(gm)
        d = rp.dec_getheaders(sess.clog[-1][2])
        tr.oracle("P2_getheaders")
        if d["version"] != step.get("version", 70015) or d["locators"] != [start] or d["stop"] != (bytes.fromhex(step["stop"]) if step.get("stop") else bytes(32)):
            fail("C19", "P2", "getheaders_layout", f"getheaders decodes to {d}")
        hm, payload = cl.wait_for(HeadersMessage)
        hs, ref_valid = check_headers_msg(sess, hm, payload)
        if not sess.dirty:
            if not ref_valid:
                fail("C17", "M3", "honest_headers_invalid", "honest header batch judged invalid by the reference (harness)")
            if hs and rp.dec_header(hs[0])["prev"] != start:
                fail("C19", "P4", "headers_not_linked_to_request", "honest peer's first header does not link to the requested start")
        return
    if op == "retarget":
        from buidl.helper import calculate_new_bits

        node.send(GetHeadersMessage(start_block=bytes(32)))
        hm, payload = cl.wait_for(HeadersMessage)
        if len(hm.headers) != 3:
            return
        h0, h1, h2 = hm.headers
        span = (h1.timestamp - h0.timestamp) % 2**32
        want = rp.retarget(h0.bits, span)
        tr.oracle("M4")
        tr.probe("c17_validated")
        tr.probe("retarget_" + ("clamp_low" if span < rp.TWO_WEEKS // 4 else "clamp_high" if span > rp.TWO_WEEKS * 4 else "mid"))
        try:
            got = calculate_new_bits(h0.bits, span)
        except SimDeadlock:
            raise
        except Exception as e:
            fail("C17", "M4", "retarget_raised" + ("_small_exponent" if h0.bits[3] < 4 else ""), f"calculate_new_bits({h0.bits.hex()}, {span}) raised {type(e).__name__}: {e}; consensus gives {want.hex()}")
            return
        if got != want:
            fail("C17", "M4", "retarget_differs" + ("_small_exponent" if h0.bits[3] < 4 else ""), f"calculate_new_bits({h0.bits.hex()}, {span}) = {bytes(got).hex()}, consensus formula gives {want.hex()}")
        # the SPV client's verdict on the served next-period header: equal bits <=> honest
        accepts = bytes(got) == h2.bits
        if accepts != (h2.bits == want):
            fail("C17", "M4", "retarget_verdict", "client's accept/reject of the next period's bits differs from the consensus verdict")
        t, neg, ovf = rp.compact_to_target(h0.bits)
        if not neg and not ovf and h0.bits[3] >= 3 and h0.target() != t:
            fail("C17", "M3", "target", f"bits {h0.bits.hex()} -> {h0.target()} != consensus {t}")
        return
    if op in ("filtered", "block"):
        blocks = [chain["blocks"][i % len(chain["blocks"])] for i in step["blocks"]]
        hashes = [b["hash"] for b in blocks]
        if op == "block":
            gd = GetDataMessage()
            for h in hashes:
                gd.add_data(bn.BLOCK_DATA_TYPE, h)
            node.send(gd)
            items = rp.dec_getdata(sess.clog[-1][2])
            if items != [(2, h) for h in hashes]:
                fail("C19", "P2", "getdata_layout", f"getdata decodes to {items}")
            for b in blocks:
                blk, payload = cl.wait_for(Block)
                ids = []
                rr = tm.Reader(payload)
                h80 = rr.take(80)
                ntx = rr.compact()
                if len(blk.txs) != ntx:
                    fail("C19", "P3", "block_txcount", "block tx count differs")
                # ground truth from an independent parse of the received bytes
                rest = payload[rr.p :]
                pos = 0
                tids = []
                ok_parse = True
                try:
                    for _ in range(ntx):
                        txd, _sw, pos = tm.parse_tx_at(rest, pos, strict=False)
                        tids.append(tm.txid(txd))
                except Exception:
                    ok_parse = False
                if ok_parse:
                    ref_root_ok = rmerkle.merkle_root([t[::-1] for t in tids])[::-1] == rp.dec_header(h80)["root"]
                    got = blk.validate_merkle_root()
                    tr.oracle("M0_block_root")
                    tr.probe("c17_validated")
                    if bool(got) != ref_root_ok:
                        fail("C17", "M0", "validate_merkle_root_" + ("accepts_invalid" if got else "rejects_valid"), f"Block.validate_merkle_root()={got}, reference={ref_root_ok} for {ntx} txs")
                    if [t.hash() for t in blk.txs] != tids:
                        fail("C17", "M0", "block_txids", "txids of parsed block differ from reference")
            return
        # filtered blocks
        bf = BloomFilter(step["bf"]["size"], step["bf"]["funcs"], step["bf"]["tweak"])
        for b, match in zip(blocks, step["match"]):
            for i in match:
                if i < len(b["txs"]):
                    bf.add(b["txs"][i]["outs"][0]["spk"][-22:-2])
        node.send(bf.filterload(step["bf"].get("flag", 1)))
        d = rp.dec_filterload(sess.clog[-1][2])
        tr.oracle("P2_filterload")
        if d["funcs"] != step["bf"]["funcs"] or d["tweak"] != step["bf"]["tweak"] or d["flags"] != step["bf"].get("flag", 1) or len(d["filter"]) != step["bf"]["size"]:
            fail("C19", "P2", "filterload_layout", f"filterload decodes to funcs={d['funcs']} tweak={d['tweak']} len={len(d['filter'])}")
        # instrument MerkleBlock.is_valid to apply M1 after every validation that returned True
        validated = []
        real_is_valid = MerkleBlock.is_valid

        def spy_is_valid(mb):
            res = real_is_valid(mb)
            validated.append((mb, res))
            return res

        MerkleBlock.is_valid = spy_is_valid
        if True:
            try:
                txs = node.get_filtered_txs(hashes)
            finally:
                MerkleBlock.is_valid = real_is_valid
                # M1b: every proof that validated yields only ids of the block whose header it carries
                by_hash = {b["hash"]: b for b in chain["blocks"]}
                for mb, res in validated:
                    tr.oracle("M1_proof")
                    tr.probe("c17_validated")
                    tr.probe("proof_valid" if res else "proof_invalid")
                    if res:
                        truth = by_hash.get(mb.hash())
                        if truth is None:
                            # header is not a block of the chain (altered header): nothing is known about its txs, but then the
                            # root cannot be a root the peer committed to; the client must have rejected it via the hash check.
                            continue
                        ids = mb.proved_txs()
                        for t in ids:
                            if t not in truth["txids"]:
                                fail("C17", "M1", "proved_foreign_txid" + ("_interior_node" if (step.get("fault") or {}).get("kind") == "mb_interior_as_leaves" else ""), f"validated proof for block {mb.id()} yields {t.hex()} which is not a transaction of that block")
        # returned: every tx is in the requested blocks (M1) ...
        tr.oracle("M1_result")
        allowed = []
        for b, match in zip(blocks, step["match"]):
            allowed.append((b, [b["txids"][i] for i in sorted(match) if i < len(b["txids"])]))
        got_ids = [t.hash() for t in txs]
        union = set()
        for b in blocks:
            union.update(b["txids"])
        for t in got_ids:
            if t not in union:
                fail("C17", "M1", "returned_foreign_tx", f"get_filtered_txs returned {t.hex()} which is in none of the requested blocks")
        if not sess.dirty:
            # M2 completeness: honest proof yields exactly the matched ids in block order
            exp = [t for _, ids in allowed for t in ids]
            tr.oracle("M2")
            if got_ids != exp:
                fail("C17", "M2", "honest_proof_result", f"honest filtered blocks returned {len(got_ids)} txs, expected the {len(exp)} matched ids in order")
            for (mb, res), b in zip(validated, blocks):
                tr.probe(f"tree_size_class_{min(len(b['txids']).bit_length(), 13)}")
                if mb.total != len(b["txids"]):
                    fail("C19", "P3", "merkleblock_total", "merkleblock total differs")
        return
    if op == "tx_accepted":
        b = chain["blocks"][step["block"] % len(chain["blocks"])]
        ti = step["tx"] % len(b["txs"])
        raw = tm.ser_tx(b["txs"][ti], witness=False)
        from io import BytesIO

        tx_obj = Tx.parse(BytesIO(raw))
        if step.get("unknown"):
            tx_obj.locktime = type(tx_obj.locktime)(12345)
        t0 = sess.q.now
        res = node.is_tx_accepted(tx_obj)
        tr.oracle("P3_tx_accepted")
        if sess.q.now - t0 < 1.0 - 1e-9:
            fail("C19", "P3", "sleep_not_honoured", "is_tx_accepted returned in less than its 1 s propagation delay")
        if not sess.dirty and not step.get("unknown") and res is not True:
            fail("C19", "P4", "tx_accepted_false", "honest peer served the transaction but is_tx_accepted did not return True")
        return
    if op == "cfilters":
        stop = bytes.fromhex(step["stop"])
        node.send(GetCFiltersMessage(filter_type=step["ftype"], start_height=step["height"], stop_hash=stop))
        d = rp.dec_getcf(sess.clog[-1][2])
        tr.oracle("P2_getcf")
        if d != {"type": step["ftype"], "height": step["height"], "stop": stop}:
            fail("C19", "P2", "getcfilters_layout", f"getcfilters decodes to {d}")
        for _ in range(step["count"]):
            obj, payload = cl.wait_for(CFilterMessage)
            if rp.enc_cfilter(obj.filter_type, obj.block_hash, obj.filter_bytes) != payload:
                fail("C19", "P3", "cfilter_fields", "CFilterMessage fields do not re-encode to the received payload")
        return
    if op == "cfheaders":
        stop = bytes.fromhex(step["stop"])
        node.send(GetCFHeadersMessage(filter_type=step["ftype"], start_height=step["height"], stop_hash=stop))
        d = rp.dec_getcf(sess.clog[-1][2])
        tr.oracle("P2_getcf")
        if d != {"type": step["ftype"], "height": step["height"], "stop": stop}:
            fail("C19", "P2", "getcfheaders_layout", f"getcfheaders decodes to {d}")
        obj, payload = cl.wait_for(CFHeadersMessage)
        if rp.enc_cfheaders(obj.filter_type, obj.stop_hash, obj.previous_filter_header, obj.filter_hashes) != payload:
            fail("C19", "P3", "cfheaders_fields", "CFHeadersMessage fields do not re-encode to the received payload")
        cur = obj.previous_filter_header
        for fh in obj.filter_hashes:
            cur = tm.sha256d(fh + cur)
        if obj.last_header != cur:
            fail("C19", "P3", "cfheaders_chain", "filter header chain differs")
        tr.probe("cf_count_class_" + ("ge_fd" if len(obj.filter_hashes) >= 0xFD else "lt_fd"))
        return
    if op == "cfcheckpt":
        stop = bytes.fromhex(step["stop"])
        node.send(GetCFCheckPointMessage(filter_type=step["ftype"], stop_hash=stop))
        d = rp.dec_getcf(sess.clog[-1][2], with_height=False)
        tr.oracle("P2_getcf")
        if d != {"type": step["ftype"], "height": None, "stop": stop}:
            fail("C19", "P2", "getcfcheckpt_layout", f"getcfcheckpt decodes to {d}")
        obj, payload = cl.wait_for(CFCheckPointMessage)
        if rp.enc_cfcheckpt(obj.filter_type, obj.stop_hash, obj.filter_headers) != payload:
            fail("C19", "P3", "cfcheckpt_fields", "CFCheckPointMessage fields do not re-encode to the received payload")
        return
    if op == "header_edits":
        # a header object the client holds (decoded from the peer's bytes) goes through a history of observations and field edits,
        # as a header-building / nonce-grinding caller does; after every edit its encoding, hash and proof-of-work verdict must be
        # those of its CURRENT field values (ref model), and decoding the encoding gives the same values back
        h80 = chain["blocks"][step["blk"] % len(chain["blocks"])]["header"]
        blk = Block.parse_header(io.BytesIO(h80))
        m = rp.dec_header(h80)
        r = plan_rng(step["pseed"], "he")
        for act in step["acts"]:
            if act == "obs":
                want = rp.header80(m["version"], m["prev"], m["root"], m["time"], m["bits"], m["nonce"])
                tr.oracle("P2_header_history")
                got = blk.serialize()
                if got != want:
                    fail("C19", "P2", "header_encoding_stale", f"header object with fields {m['version']:#x}/{m['time']}/{m['bits'].hex()}/{m['nonce'].hex()} serialises to {got.hex()}")
                elif blk.hash() != rp.header_hash(want) or blk.id() != rp.header_hash(want).hex():
                    fail("C19", "P2", "header_hash_stale", "hash()/id() of the header object is not the hash of its current fields")
                else:
                    b2 = Block.parse_header(io.BytesIO(got))
                    if (b2.version, b2.prev_block, b2.merkle_root, b2.timestamp, b2.bits, b2.nonce) != (m["version"], m["prev"], m["root"], m["time"], m["bits"], m["nonce"]):
                        fail("C19", "P3", "header_decode_fields", "decoding the header's encoding gives other field values")
                tr.oracle("M3_header_history")
                if blk.check_pow() != rp.pow_ok(want):
                    fail("C17", "M3", "pow_verdict_after_edit", f"check_pow() = {not rp.pow_ok(want)} for header {want.hex()}, consensus says {rp.pow_ok(want)}")
                tr.probe("header_obs_pow_" + str(rp.pow_ok(want)))
            elif act == "pow_edge":
                # the one header state real SHA-256 cannot be steered into: hash == target (and its two neighbours). For this observation
                # only, the digest function the header code calls (buidl.block.hash256) is a stub returning the chosen 256-bit value.
                t, neg, ovf = rp.compact_to_target(m["bits"])
                if neg or ovf or t == 0 or t >= 2**256:
                    tr.probe("pow_edge_skipped_illegal_target")
                    continue
                import buidl.block as bblock
                tr.fault("hash_stub_pow_edge")
                for delta in (-1, 0, 1):
                    v = t + delta
                    if not 0 <= v < 2**256:
                        continue
                    real_h = bblock.hash256
                    bblock.hash256 = lambda _b, v=v: v.to_bytes(32, "little")
                    try:
                        got = blk.check_pow()
                    finally:
                        bblock.hash256 = real_h
                    tr.oracle("M3_pow_edge")
                    if bool(got) != (v <= t):
                        fail("C17", "M3", "pow_verdict_at_target" if delta == 0 else "pow_verdict_next_to_target", f"check_pow() = {got} for a header with bits {m['bits'].hex()} whose hash is target{delta:+d}; consensus (hash <= target) says {v <= t}")
            else:
                tr.fault("header_edit_" + act)
                if act == "nonce":
                    m["nonce"] = r.getrandbits(32).to_bytes(4, "big")
                    blk.nonce = m["nonce"]
                elif act == "time":
                    m["time"] = r.getrandbits(32)
                    blk.timestamp = m["time"]
                elif act == "version":
                    m["version"] = r.choice([1, 2, 0x20000000, 0x7FFFFFFF, 0x80000000, 0xFFFFFFFF])
                    blk.version = m["version"]
                elif act == "root":
                    m["root"] = r.getrandbits(256).to_bytes(32, "big")
                    blk.merkle_root = m["root"]
                elif act == "prev":
                    m["prev"] = r.getrandbits(256).to_bytes(32, "big")
                    blk.prev_block = m["prev"]
                elif act == "bits":
                    # usual values, and compact encodings with the sign bit set, overflowing 256 bits, or denoting zero
                    m["bits"] = r.choice([bytes.fromhex("ffff7f20"), bytes.fromhex("ffff001d"), bytes.fromhex("ffff7f1f")] + WEIRD_BITS)
                    tr.probe("header_bits_" + ("weird" if m["bits"] in WEIRD_BITS else "usual"))
                    blk.bits = m["bits"]
        return
    if op == "proof_edits":
        # an inclusion-proof object the client holds (decoded from the peer's bytes) is validated, altered in place, validated again,
        # repaired, ...: the verdict and the ids it yields must be those of its CURRENT fields (M5: the same as for a fresh object
        # decoded from the encoding of the current fields), an altered hash or root never validates, the honest fields always do
        b = chain["blocks"][step["blk"] % len(chain["blocks"])]
        nleaf = len(b["txids"])
        flags = [(step["match"] >> (i % 30)) & 1 == 1 for i in range(nleaf)]
        total0, hashes0, fb0, _ = rmerkle.build_partial([x[::-1] for x in b["txids"]], flags)
        matched = [t for t, f in zip(b["txids"], flags) if f]
        hm = rp.dec_header(b["header"])
        cur = {"root": hm["root"], "total": total0, "hashes": list(hashes0), "flags": bytes(fb0)}
        honest = dict(cur, hashes=list(hashes0))
        mb = MerkleBlock.parse(io.BytesIO(rp.enc_merkleblock(b["header"], total0, hashes0, fb0)))
        r = plan_rng(step["pseed"], "pe")
        undo = []

        def verdict(obj):
            try:
                with contextlib.redirect_stdout(io.StringIO()):
                    ok = obj.is_valid()
            except Exception as e:
                return ("raised", type(e).__name__), []
            return bool(ok), (list(obj.proved_txs()) if ok else [])

        def apply(field, val):
            cur[field] = val
            if field == "root":
                mb.header.merkle_root = val
            elif field == "total":
                mb.total = val
            elif field == "flags":
                mb.flags = val
            elif field == "hashes":
                # alternately element assignment in the held list and a new list
                if step.get("inplace", True) and len(val) == len(mb.hashes):
                    for i, h in enumerate(val):
                        if mb.hashes[i] != h[::-1]:
                            mb.hashes[i] = h[::-1]
                else:
                    mb.hashes = [h[::-1] for h in val]

        for act in step["acts"]:
            if act == "obs":
                tr.oracle("M5_proof_history")
                got, ids = verdict(mb)
                h80 = rp.header80(hm["version"], hm["prev"], cur["root"], hm["time"], hm["bits"], hm["nonce"])
                fresh = MerkleBlock.parse(io.BytesIO(rp.enc_merkleblock(h80, cur["total"], cur["hashes"], cur["flags"])))
                fgot, fids = verdict(fresh)
                is_honest = cur == honest
                tr.probe("proof_obs_" + ("honest" if is_honest else "altered") + "_" + ("valid" if got is True else "invalid"))
                if (got is True) != (fgot is True) or ids != fids:
                    fail("C17", "M5", "proof_verdict_depends_on_history", f"held proof object (block of {nleaf} txs, after acts {step['acts']}) says {got} / {len(ids)} ids, a fresh object with the same fields says {fgot} / {len(fids)} ids")
                elif is_honest and (got is not True or ids != matched):
                    fail("C17", "M2", "honest_proof_rejected_after_history", f"proof object whose fields are the honest proof again says {got} and yields {len(ids)} ids, expected the {len(matched)} matched ids")
                elif got is True:
                    same = {k: cur[k] == honest[k] for k in cur}
                    # the statement's alterations are single ones: an altered hash under the genuine header, or an altered root over the
                    # genuine proof. (A hash and the root altered consistently are an honest proof for another header: no verdict.)
                    if (not same["hashes"] and same["root"] and same["total"] and same["flags"]) or (not same["root"] and same["hashes"] and same["total"] and same["flags"]):
                        fail("C17", "M1", "altered_proof_validates", "a proof with an altered hash or header root validates")
                    if same["root"]:
                        # the header is the block's: whatever validates against it yields transactions of the block only
                        for t in ids:
                            if t not in b["txids"]:
                                interior = t[::-1] in interior_nodes([x[::-1] for x in b["txids"]])
                                fail("C17", "M1", "proved_foreign_txid" + ("_interior_node" if interior else ""), f"validated proof (transaction count {cur['total']}, block has {nleaf}) yields {t.hex()} which is not a transaction of the block" + (" but an interior node of its merkle tree" if interior else ""))
            elif act == "revert":
                if undo:
                    tr.fault("proof_edit_revert")
                    apply(*undo.pop())
            else:
                tr.fault("proof_edit_" + act)
                if act == "hash" and cur["hashes"]:
                    i = r.randrange(len(cur["hashes"]))
                    undo.append(("hashes", list(cur["hashes"])))
                    hs = list(cur["hashes"])
                    hs[i] = (int.from_bytes(hs[i], "big") ^ (1 << r.randrange(256))).to_bytes(32, "big")
                    apply("hashes", hs)
                elif act == "flag" and cur["flags"]:
                    undo.append(("flags", cur["flags"]))
                    fb = bytearray(cur["flags"])
                    fb[r.randrange(len(fb))] ^= 1 << r.randrange(8)
                    apply("flags", bytes(fb))
                elif act == "total":
                    undo.append(("total", cur["total"]))
                    apply("total", max(1, cur["total"] ^ (1 << r.randrange(0, max(1, nleaf.bit_length())))))
                elif act == "root":
                    undo.append(("root", cur["root"]))
                    apply("root", (int.from_bytes(cur["root"], "big") ^ (1 << r.randrange(256))).to_bytes(32, "big"))
        return
    if op == "getdata_layout":
        gd = GetDataMessage()
        r = plan_rng(step["pseed"], "gd")
        items = []
        for _ in range(step["n"]):
            t = r.choice([1, 2, 3, 4, (1 << 30) + 1, (1 << 30) + 2])
            h = r.getrandbits(256).to_bytes(32, "big")
            items.append((t, h))
            gd.add_data(t, h)
        node.send(gd)
        tr.oracle("P2_getdata")
        if rp.dec_getdata(sess.clog[-1][2]) != items:
            fail("C19", "P2", "getdata_layout", f"getdata with {step['n']} items does not decode to the items given")
        tr.probe("getdata_count_class_" + ("ge_fd" if step["n"] >= 0xFD else "lt_fd"))
        return
    raise ValueError(op)


def interior_nodes(leaves):
    """All interior node hashes (every level above the leaves, the root included) of the consensus merkle tree over leaves (internal order)."""
    out = set()
    level = list(leaves)
    while len(level) > 1:
        if len(level) % 2:
            level = level + [level[-1]]
        level = [rp.sha256d(level[i] + level[i + 1]) for i in range(0, len(level), 2)]
        out.update(level)
    return out


def final_checks(sess, peer, prop):
    tr = sess.trace
    # flush: let all client bytes reach the peer
    while not sess.q.empty():
        sess.q.step()
    # P2: everything the client wrote is a sequence of strict envelopes equal to what it asked to send
    envs, st, off = rp.parse_all(bytes(sess.client_out), sess.magic, closed=True)
    tr.oracle("P2_outbound")
    if st != "clean_eof":
        fail("C19", "P2", f"outbound_{st}", f"bytes written by the client stop being strict envelopes at offset {off}: {st}")
    sends = [e for e in sess.clog if e[0] == "send"]
    if len(envs) != len(sends):
        fail("C19", "P2", "outbound_count", f"{len(envs)} envelopes on the wire, {len(sends)} messages sent")
    for (raw12, payload), s in zip(envs, sends):
        if not rp.command_wellformed(raw12) or raw12.rstrip(b"\x00") != s[1] or payload != s[2]:
            fail("C19", "P2", "outbound_envelope", f"envelope on the wire {raw12!r}/{len(payload)} differs from message {s[1]!r}/{len(s[2])}")
    # P3: reactions. Inside wait_for every accepted version is answered by verack and every ping by pong(same payload), immediately.
    log = sess.clog
    for i, e in enumerate(log):
        if e[0] == "recv" and e[3] and e[1] in (b"version", b"ping"):
            tr.oracle("P3_reaction")
            nxt = log[i + 1] if i + 1 < len(log) else None
            want = (b"verack", b"") if e[1] == b"version" else (b"pong", e[2])
            if nxt is None or nxt[0] != "send" or (nxt[1], nxt[2]) != want:
                fail("C19", "P3", "reaction_" + e[1].decode(), f"accepted {e[1]!r} was not answered by {want[0]!r} with the right payload (next log entry: {nxt[:2] if nxt else None})")
            tr.probe("auto_reply_" + e[1].decode())
    n_pong = sum(1 for e in log if e[0] == "send" and e[1] == b"pong")
    n_ping = sum(1 for e in log if e[0] == "recv" and e[1] == b"ping" and e[3])
    if n_pong != n_ping:
        fail("C19", "P3", "pong_count", f"{n_pong} pongs sent for {n_ping} pings accepted")


def execute(plan, prop, trace):
    sess = Session(plan, prop, trace)
    _TR[0] = trace
    chain = build_chain(plan["chain"])
    peer = Peer(sess, chain)
    sess.peer = peer
    saved = (bn.socket, bn.time, bn.sleep, bn.randint)
    bn.socket = FakeSocketModule(sess)
    bn.time = FakeTime(sess)
    bn.sleep = sess.sleep
    bn.randint = sess.randint
    outcomes = []
    try:
        cl = ClientHarness(sess)
        dirty = False  # once a fault was injected the stream may be poisoned for later operations: P4 no longer applies
        for si, step in enumerate(plan["steps"]):
            step = dict(step, id=si)
            fault = step.get("fault")
            if fault:
                dirty = True
            sess.dirty = dirty
            try:
                run_step(sess, cl, peer, step, prop)
                outcomes.append("ok")
                trace.ev("client", "op-ok", step["op"])
                trace.state("done", step["op"], "ok", (fault or {}).get("kind"))
            except SimDeadlock:
                outcomes.append("blocked")
                trace.ev("client", "op-blocked", step["op"])
                trace.state("done", step["op"], "blocked", (fault or {}).get("kind"))
                if not dirty and not step.get("unknown") and not step.get("may_block"):
                    fail("C19", "P4", "blocked_" + step["op"], f"operation {step['op']} blocked forever against an honest peer with only fragmentation/delay")
                break
            except Violation:
                raise
            except Exception as e:
                outcomes.append("raised:" + type(e).__name__)
                trace.ev("client", "op-raised", f"{step['op']}|{type(e).__name__}")
                trace.state("done", step["op"], "raised", type(e).__name__, (fault or {}).get("kind"))
                if not dirty and step["op"] in ("filtered", "getheaders", "block"):
                    fail("C17", "M2", f"honest_{step['op']}_raised_{type(e).__name__}", f"honest peer, spec-built proof/headers, yet {step['op']} raised {type(e).__name__}: {e}")
                if not dirty:
                    detail = f"raised_{step['op']}_{type(e).__name__}"
                    fail("C19", "P4", detail, f"operation {step['op']} raised {type(e).__name__}: {e} against an honest peer with only fragmentation/delay")
                break
        final_checks(sess, peer, prop)
    finally:
        bn.socket, bn.time, bn.sleep, bn.randint = saved
    return {"network": plan["network"], "ops": [s["op"] + (":" + s["fault"]["kind"] if s.get("fault") else "") for s in plan["steps"]], "outcomes": outcomes,
            "blocks": plan["chain"]["txs"], "accepted_envelopes": sess.accepted, "bytes_to_client": len(sess.rx)}


# ------------------------------------------------------------------------------------------------
# plan generation

GENERIC_FAULTS = ["eof_at", "flip", "wrong_magic", "bad_checksum", "lie_long", "lie_short_consistent", "lie_short", "dup_env", "drop_env", "garbage_after", "close_after"]
MB_FAULTS = ["mb_flip_hash", "mb_flip_flag", "mb_flip_total", "mb_flip_root", "mb_drop_hash", "mb_extra_hash", "mb_swap_hashes", "mb_wrong_block", "mb_interior_as_leaves",
             "tx_wrong", "tx_omit", "tx_reorder", "tx_unmatched"]
HDR_FAULTS = ["hdr_bad_pow", "hdr_break_link", "hdr_hard_bits", "hdr_txcount", "hdr_relink_valid", "hdr_weird_bits"]
# compact targets that consensus treats as invalid: negative (sign bit 0x00800000 set with a non-zero mantissa), overflowing 256 bits, zero
WEIRD_BITS = [bytes.fromhex(x) for x in ("ffff8020", "00000121", "56349204", "ffff8021", "ffffff22", "00008001", "56340001", "000000ff", "ffff7f23")]

BOUNDARY_LENS = [0, 1, 2, 0xFC, 0xFD, 0xFE, 0xFF, 0x100, 0xFFFF, 0x10000, 0x10001, 100000]
SAMPLE_FILTERS = ["00", "0190c5d0", "00"]


def gen_fault(ch, op, enabled):
    pool = [k for k in GENERIC_FAULTS if k in enabled]
    if op == "filtered":
        pool += [k for k in MB_FAULTS if k in enabled] * 2
    if op == "getheaders":
        pool += [k for k in HDR_FAULTS if k in enabled] * 2
    if op == "block" and "blk_alter_tx" in enabled:
        pool += ["blk_alter_tx"] * 3
    if not pool:
        return None
    k = ch.choice(pool)
    f = {"kind": k, "a": ch.randrange(0, 1 << 16), "b": ch.randrange(0, 256)}
    if k in ("eof_at", "flip"):
        f = {"kind": k, "k": ch.randrange(0, 4000) if ch.chance(0.7) else ch.randrange(0, 120), "bit": ch.randrange(8)}
    if k in ("wrong_magic", "bad_checksum", "lie_long", "lie_short_consistent", "lie_short", "dup_env", "drop_env"):
        f["j"] = ch.randrange(0, 6)
    if k.startswith("mb_") or k.startswith("tx_"):
        f["nth"] = ch.randrange(0, 3)
    return f


def gen_step(ch, op, chain_cfg, tier, enabled, p_fault):
    nb = len(chain_cfg["txs"])
    s = {"op": op}
    if op == "handshake":
        s["trigger"] = "version"
        s["verack_first"] = ch.chance(0.2)
    elif op == "ping":
        s["trigger"] = "ping"
        s["nonce"] = ch.bytes(8).hex()
    elif op == "echo":
        n = ch.randrange(0, 13)
        s["cmd"] = "".join(ch.choice("abcdefghijklmnopqrstuvwxyz0123456789") for _ in range(n))
        s["trigger"] = s["cmd"]
        big = tier == "thorough" or ch.chance(0.15)
        s["plen"] = ch.choice(BOUNDARY_LENS if big else BOUNDARY_LENS[:8]) if ch.chance(0.6) else ch.randrange(0, 600)
        s["pseed"] = ch.randrange(1 << 30)
    elif op == "fields":
        s["trigger"] = "fields"
        items = []
        for _ in range(ch.randrange(1, 7)):
            k = ch.choice(["vi", "vi", "vi", "vs", "le", "be"])
            if k == "vi":
                items.append(["vi", ch.choice(VARINT_BOUNDARIES) if ch.chance(0.75) else ch.getrandbits(ch.choice([7, 15, 16, 31, 32, 33, 47, 48, 49, 63, 64]))])
            elif k == "vs":
                items.append(["vs", ch.randrange(1 << 30), ch.choice([0, 1, 0xFC, 0xFD, 0xFE, 300]) if ch.chance(0.6) else ch.randrange(0, 600)])
            else:
                w = ch.choice([1, 2, 4, 8, 32])
                items.append([k, ch.choice([0, 1, 2 ** (8 * w) - 1, 2 ** (8 * w - 1), ch.getrandbits(8 * w)]), w])
        s["items"] = items
    elif op == "send_version":
        s["trigger"] = "-"
        ual = ch.choice([0, 1, 27, 0xFC, 0xFD, 0xFE, 300]) if ch.chance(0.7) else ch.randrange(0, 400)
        s["fields"] = {
            "version": ch.choice([0, 1, 70015, 70016, 0xFFFFFFFF, ch.getrandbits(32)]),
            "services": ch.choice([0, 1, 1033, 2**64 - 1, ch.getrandbits(64)]),
            "timestamp": ch.choice([0, 1, 2**32 - 1, 2**32, 2**63, 2**64 - 1, ch.getrandbits(40)]),
            "rs": ch.getrandbits(64), "ss": ch.choice([0, ch.getrandbits(64)]),
            "rip": ch.bytes(4).hex(), "sip": ch.bytes(4).hex(),
            "rport": ch.choice([0, 1, 255, 256, 8333, 18333, 0x0101, 65535, ch.getrandbits(16)]),
            "sport": ch.choice([0, 8333, 0x1F1F, 65535, ch.getrandbits(16)]),
            "nonce": ch.bytes(8).hex(), "ua": ch.bytes(ual).hex(), "height": ch.choice([0, 1, 800000, 2**32 - 1, ch.getrandbits(32)]), "relay": ch.chance(0.5),
        }
    elif op == "getheaders":
        s["trigger"] = "getheaders"
        s["start"] = "base" if ch.chance(0.4) else ch.randrange(0, nb)
        s["max"] = ch.choice([2000, 2000, 1, 2, 3])
        if ch.chance(0.3):
            s["version"] = ch.choice([0, 70015, 2**32 - 1, ch.getrandbits(32)])
        if ch.chance(0.3):
            s["stop"] = ch.bytes(32).hex()
        if ch.chance(0.15):
            s["num_hashes"] = ch.choice([0, 2, 3, 0xFD, 0x10000])
    elif op in ("filtered", "block"):
        s["trigger"] = "getdata"
        k = ch.randrange(1, 3)
        s["blocks"] = [ch.randrange(0, nb) for _ in range(k)]
        if op == "filtered":
            s["match"] = []
            for bi in s["blocks"]:
                n = chain_cfg["txs"][bi % nb]
                mode = ch.randrange(5)
                if mode == 0:
                    m = []
                elif mode == 1:
                    m = list(range(n))
                elif mode == 2:
                    m = [ch.randrange(n)]
                elif mode == 3:
                    m = [n - 1]
                else:
                    m = sorted(set(ch.randrange(n) for _ in range(ch.randrange(1, min(n, 6) + 1))))
                s["match"].append(m)
            s["bf"] = {"size": ch.choice([1, 8, 30, 0xFC, 0xFD, 1000]), "funcs": ch.choice([1, 5, 11, 50]), "tweak": ch.choice([0, 1, 2**32 - 1, ch.getrandbits(32)]), "flag": ch.choice([0, 1, 2])}
            s["tx_witness"] = ch.chance(0.3)
    elif op == "tx_accepted":
        s["trigger"] = "getdata"
        s["block"] = ch.randrange(0, nb)
        s["tx"] = ch.randrange(0, 64)
        s["unknown"] = ch.chance(0.15)
    elif op in ("cfilters", "cfheaders", "cfcheckpt"):
        s["trigger"] = "get" + op
        s["ftype"] = ch.choice([0, 0, 1, 255])
        s["height"] = ch.choice([0, 1, 0xFFFF, 0x10000, 2**32 - 1, ch.getrandbits(32)])
        s["stop"] = ch.bytes(32).hex()
        if op == "cfilters":
            s["count"] = ch.randrange(1, 4)
            s["filters"] = SAMPLE_FILTERS
        else:
            s["count"] = ch.choice([0, 1, 2, 0xFC, 0xFD, 300]) if ch.chance(0.4) else ch.randrange(0, 20)
    elif op == "retarget":
        s["trigger"] = "getheaders"
        m = ch.randrange(6)
        if m < 4:
            # a normalised target at or below the proof-of-work limit
            t = ch.choice([0xFFFF << 208, 0xFFFF << 200, ch.getrandbits(ch.randrange(30, 224)) | 1, 0x7FFFFF << ch.randrange(8, 200), 0x8000 << ch.randrange(8, 200), 0x800000 << 100])
            t = min(t, 0xFFFF << 208)
            s["bits"] = rp.target_to_compact(t).hex()
        elif m == 4:
            s["bits"] = ch.choice(["ffff001d", "6ad8001d", "ffff7f20", "cb04041b"])
        else:
            # exponents 1..3 (tiny targets)
            s["bits"] = (ch.randrange(1, 0x7FFFFF).to_bytes(3, "little") + bytes([ch.choice([1, 2, 3])])).hex()
        tw = 14 * 24 * 3600
        s["span"] = ch.choice([tw, tw // 4, tw // 4 - 1, tw // 4 + 1, tw * 4, tw * 4 - 1, tw * 4 + 1, 1, 0, tw * 10, ch.randrange(1, tw * 6)])
        s["t0"] = ch.randrange(1231006505, 2**32 - tw * 12)
        if ch.chance(0.3):
            s["lie"] = ch.randrange(1, 24)
    elif op == "header_edits":
        s["trigger"] = "-"
        s["blk"] = ch.randrange(0, 16)
        s["pseed"] = ch.randrange(1 << 30)
        acts = []
        for _ in range(ch.randrange(1, 7)):
            acts.append("obs" if ch.chance(0.45) else ch.choice(["nonce", "nonce", "nonce", "time", "version", "root", "prev", "bits"]))
        s["acts"] = acts + ["obs"] + (["pow_edge"] if ch.chance(0.5) else [])
    elif op == "proof_edits":
        s["trigger"] = "-"
        s["blk"] = ch.randrange(0, 16)
        s["match"] = ch.choice([ch.getrandbits(30), ch.getrandbits(30) & ch.getrandbits(30), (1 << 30) - 1, 1 << ch.randrange(30)])
        s["pseed"] = ch.randrange(1 << 30)
        s["inplace"] = ch.chance(0.6)
        acts = ["obs"] if ch.chance(0.7) else []
        for _ in range(ch.randrange(1, 5)):
            acts.append(ch.choice(["hash", "hash", "hash", "flag", "total", "root"]))
            if ch.chance(0.6):
                acts.append("obs")
            if ch.chance(0.5):
                acts.append("revert")
                if ch.chance(0.7):
                    acts.append("obs")
        s["acts"] = acts + ["obs"]
    elif op == "getdata_layout":
        s["trigger"] = "-"
        s["n"] = ch.choice([0, 1, 0xFC, 0xFD, 0xFE, 300]) if ch.chance(0.5) else ch.randrange(0, 50)
        s["pseed"] = ch.randrange(1 << 30)
    if s.get("trigger") != "-":
        if ch.chance(0.35):
            s["pre"] = [ch.choice(CHATTER) for _ in range(ch.randrange(1, 4))]
        if ch.chance(0.15):
            s["post"] = [ch.choice(CHATTER) for _ in range(ch.randrange(1, 3))]
        if enabled and ch.chance(p_fault):
            f = gen_fault(ch, op, enabled)
            if f:
                s["fault"] = f
    return s


VARINT_BOUNDARIES = [0, 1, 0xFC, 0xFD, 0xFE, 0xFF, 0x100, 0xFFFE, 0xFFFF, 0x10000, 0x10001, 0xFFFFFFFE, 0xFFFFFFFF, 0x100000000, 0x100000001, 2**40, 2**48 - 1, 2**48, 2**56, 2**63 - 1, 2**63, 2**64 - 2, 2**64 - 1]


def gen_chain_cfg(ch, tier, prop):
    nb = ch.randrange(2, 9 if tier == "quick" else 13)
    txs = []
    for _ in range(nb):
        m = ch.randrange(10)
        if m < 4:
            n = ch.randrange(1, 9)
        elif m < 8:
            n = ch.randrange(1, 65)
        elif prop == "C17" and tier == "thorough" and m == 9 and ch.chance(0.1):
            n = ch.randrange(65, 3001)
        else:
            n = ch.choice([1, 2, 3, 4, 5, 7, 8, 9, 15, 16, 17, 31, 32, 33, 63, 64])
        txs.append(n)
    return {"seed": ch.randrange(1 << 30), "txs": txs}


def generate(ch, tier, prop):
    network = ch.choice(["mainnet", "testnet", "signet", "regtest"])
    fault_free = ch.chance(0.25)
    all_kinds = GENERIC_FAULTS + MB_FAULTS + HDR_FAULTS + ["blk_alter_tx"]
    enabled = [] if fault_free else [k for k in all_kinds if ch.chance(0.5)]
    p_fault = ch.choice([0.1, 0.3, 0.6])
    chain = gen_chain_cfg(ch, tier, prop)
    clock = {"base": ch.choice([0, 1, 1700000000, 2**31 - 1, 2**31, 2**32, 2**33 - 1, ch.randrange(0, 2**33)])}
    if ch.chance(0.3):
        clock["jumps"] = [0, ch.choice([-3600, -1, 86400, -(2**20)])]
    nonce = ch.choice([0, 1, 2**63, 2**64 - 1, ch.getrandbits(64), ch.getrandbits(64), ch.getrandbits(64)])
    if enabled and "rng_upper" not in enabled and ch.chance(0.02):
        nonce = 2**64
    if prop == "C19":
        ops_pool = [("ping", 3), ("echo", 4), ("send_version", 2), ("getheaders", 2), ("filtered", 2), ("tx_accepted", 1), ("cfilters", 1), ("cfheaders", 1),
                    ("cfcheckpt", 1), ("getdata_layout", 1), ("block", 1), ("header_edits", 1), ("fields", 2)]
    else:
        ops_pool = [("getheaders", 4), ("filtered", 6), ("block", 2), ("ping", 1), ("retarget", 3), ("header_edits", 1), ("proof_edits", 2)]
    steps = []
    if ch.chance(0.85):
        steps.append(gen_step(ch, "handshake", chain, tier, enabled, p_fault))
    for _ in range(ch.randrange(1, 8)):
        steps.append(gen_step(ch, ch.weighted(ops_pool), chain, tier, enabled, p_fault))
    return {
        "network": network, "clock": clock, "nonce": nonce, "frag_seed": ch.randrange(1 << 30), "frag": ch.choice(["tiny", "mixed", "mixed", "whole"]),
        "chain": chain, "steps": steps,
    }


# ------------------------------------------------------------------------------------------------
# enumerated fault plans (fault enumeration): EOF at every offset / flip at every byte of base sessions


def _measure(plan, step_idx):
    """Length of the honest response bytes of a step (run the base plan once with a recording trace)."""
    from sim.core import Trace

    tr = Trace(keep_events=True)
    try:
        execute(plan, "C19", tr)
    except Violation:
        pass
    lens = [int(line.rsplit("|", 2)[-2]) for line in tr.events if " peer respond " in line]
    return lens[step_idx] if step_idx < len(lens) else 0


def _c17_base(seed, txs):
    return {"network": "regtest", "clock": {"base": 1700000000}, "nonce": 7, "frag_seed": 5 + seed, "frag": "whole", "chain": {"seed": 1000 + seed + sum(txs), "txs": txs}, "steps": []}


def enumerate_c17(tier, seed):
    """Exhaustive family of the property's quantifier: all trees with 1..N leaves and all 2^n match subsets (honest proofs, M2),
    and every single-bit alteration (hashes, flags, total, root) plus dropped/extra/swapped hashes of sampled proofs (M1)."""
    top = 8 if tier == "quick" else 10
    for n in range(1, top + 1):
        for mask in range(1 << n):
            base = _c17_base(seed, [n])
            base["steps"] = [{"op": "filtered", "trigger": "getdata", "blocks": [0], "match": [[i for i in range(n) if (mask >> i) & 1]], "bf": {"size": 8, "funcs": 2, "tweak": mask}}]
            base["enum"] = "trees"
            yield base
    trees = [(7, [1, 4])] if tier == "quick" else [(5, [0, 3]), (7, [1, 4]), (12, [2, 3, 11]), (33, [0, 32])]
    for n, match in trees:
        step_bits = 7 if tier == "quick" else 1
        def plan(fault):
            base = _c17_base(seed, [n, 3])
            base["steps"] = [{"op": "filtered", "trigger": "getdata", "blocks": [0], "match": [match], "bf": {"size": 8, "funcs": 2, "tweak": 1}, "fault": fault}]
            base["enum"] = "alterations"
            return base
        for h in range(8):
            for bit in range(0, 256, step_bits):
                yield plan({"kind": "mb_flip_hash", "a": h, "b": bit, "nth": 0})
        for bit in range(0, 24):
            yield plan({"kind": "mb_flip_flag", "a": bit, "b": 0, "nth": 0})
        for bit in range(0, 17):
            yield plan({"kind": "mb_flip_total", "a": bit, "b": 0, "nth": 0})
        for bit in range(0, 256, step_bits):
            yield plan({"kind": "mb_flip_root", "a": bit, "b": 0, "nth": 0})
        yield plan({"kind": "mb_drop_hash", "a": 0, "b": 0, "nth": 0})
        yield plan({"kind": "mb_extra_hash", "a": 1, "b": 0, "nth": 0})
        yield plan({"kind": "mb_interior_as_leaves", "a": 0, "b": 0, "nth": 0})
        for a in range(6):
            for b in range(a + 1, 6):
                yield plan({"kind": "mb_swap_hashes", "a": a, "b": b, "nth": 0})
    # sampled big trees through the wire parser: dense match sets, so that the hash count and the flag-byte count of the merkleblock
    # message cross the one-byte compact-size boundary (252/253 flag bytes need about a thousand matched leaves)
    big = [(1100, 1), (1300, 2)] if tier == "quick" else [(1009, 1), (1011, 1), (1012, 1), (1013, 1), (1100, 1), (1300, 2), (2047, 1), (2048, 1), (3000, 3), (5000, 1), (5000, 7)]
    for n, every in big:
        base = _c17_base(seed, [n])
        base["steps"] = [{"op": "filtered", "trigger": "getdata", "blocks": [0], "match": [[i for i in range(n) if i % every == 0]], "bf": {"size": 8, "funcs": 2, "tweak": n}}]
        base["enum"] = "big-trees"
        yield base
    # header batches: every position of a bad-PoW / broken-link / hard-bits header in a batch of 6
    for k in range(6):
        for kind in ("hdr_bad_pow", "hdr_break_link", "hdr_hard_bits", "hdr_txcount", "hdr_relink_valid"):
            base = _c17_base(seed, [1, 2, 1, 3, 1, 2])
            base["steps"] = [{"op": "getheaders", "trigger": "getheaders", "start": "base", "max": 2000, "fault": {"kind": kind, "a": k, "b": 0}}]
            base["enum"] = "headers"
            yield base
        for wb in range(len(WEIRD_BITS)):
            base = _c17_base(seed, [1, 2, 1, 3, 1, 2])
            base["steps"] = [{"op": "getheaders", "trigger": "getheaders", "start": "base", "max": 2000, "fault": {"kind": "hdr_weird_bits", "a": k, "b": wb}}]
            base["enum"] = "headers-weird-bits"
            yield base


def enumerate_plans(tier, prop, seed):
    if prop == "C17":
        yield from enumerate_c17(tier, seed)
        return
    if prop != "C19":
        return
    ch = __import__("sim.core", fromlist=["Chooser"]).Chooser(f"{seed}/p2p/enum")
    chain = {"seed": 7 + seed, "txs": [3, 5]}
    bases = []
    for network, frag in (("mainnet", "whole"), ("regtest", "tiny")):
        base = {"network": network, "clock": {"base": 1700000000}, "nonce": 12345 + seed, "frag_seed": 99 + seed, "frag": frag, "chain": chain, "steps": []}
        b1 = dict(base, steps=[{"op": "handshake", "trigger": "version", "pre": ["ping"]}])
        b2 = dict(base, steps=[{"op": "handshake", "trigger": "version"}, {"op": "getheaders", "trigger": "getheaders", "start": "base", "max": 2}])
        b3 = dict(base, steps=[{"op": "filtered", "trigger": "getdata", "blocks": [1], "match": [[1, 3]], "bf": {"size": 8, "funcs": 3, "tweak": 5}}])
        bases += [(b1, 0), (b2, 1), (b3, 0)]
    if tier == "quick":
        bases = bases[:3] + bases[3:4]
    for base, si in bases:
        n = _measure(base, si)
        for k in range(0, n + 1):
            p = dict(base, steps=[dict(s) for s in base["steps"]])
            p["steps"][si]["fault"] = {"kind": "eof_at", "k": k, "abs": True}
            yield p
        for k in range(0, n):
            p = dict(base, steps=[dict(s) for s in base["steps"]])
            p["steps"][si]["fault"] = {"kind": "flip", "k": k, "abs": True, "bit": (k * 5 + seed) % 8}
            yield p
    # headers batches with a non-zero transaction count after header k, every position
    for k in range(6):
        for cnt in (0, 1, 2):
            hb = {"network": "regtest", "clock": {"base": 1700000000}, "nonce": 9 + seed, "frag_seed": 17 + seed + k, "frag": "mixed", "chain": {"seed": 23 + seed, "txs": [1, 2, 1, 3, 1, 2]},
                  "steps": [{"op": "getheaders", "trigger": "getheaders", "start": "base", "max": 2000, "fault": {"kind": "hdr_txcount", "a": k + 6 * cnt, "b": 0}}], "enum": "headers-txcount"}
            yield hb
    # primitive fields: every ordered pair of compact-size boundary values in one record (each value followed by another field)
    base = {"network": "signet", "clock": {"base": 1700000000}, "nonce": 5 + seed, "frag_seed": 3 + seed, "frag": "mixed", "chain": chain, "steps": []}
    vb = VARINT_BOUNDARIES if tier == "thorough" else [0, 0xFC, 0xFD, 0xFFFF, 0x10000, 0xFFFFFFFF, 0x100000000, 2**48 - 1, 2**48, 2**64 - 1]
    for a in vb:
        for b in vb:
            yield dict(base, steps=[{"op": "fields", "trigger": "fields", "items": [["vi", a], ["vi", b], ["le", 0xA5A5, 2]]}], enum="fields")
    for w in (1, 2, 4, 8, 32):
        for v in (0, 1, 2 ** (8 * w) - 1, 2 ** (8 * w - 1), 0x0102030405060708090A0B0C0D0E0F101112131415161718191A1B1C1D1E1F20 % 2 ** (8 * w)):
            yield dict(base, steps=[{"op": "fields", "trigger": "fields", "items": [["le", v, w], ["be", v, w], ["vs", 1, 3]]}], enum="fields")


def shrink(plan):
    """Per-step simplifications for the minimiser."""
    for i, s in enumerate(plan["steps"]):
        for key in ("pre", "post"):
            if s.get(key):
                p = dict(plan, steps=[dict(x) for x in plan["steps"]])
                del p["steps"][i][key]
                yield p
        if s.get("fault") and s["fault"].get("a"):
            p = dict(plan, steps=[dict(x) for x in plan["steps"]])
            p["steps"][i]["fault"] = dict(s["fault"], a=0, b=0)
            yield p
    if plan.get("frag") != "whole":
        yield dict(plan, frag="whole")
    if plan["clock"].get("jumps"):
        yield dict(plan, clock={"base": plan["clock"]["base"]})
    if len(plan["chain"]["txs"]) > 2 or any(n > 4 for n in plan["chain"]["txs"]):
        yield dict(plan, chain=dict(plan["chain"], txs=[min(n, 4) for n in plan["chain"]["txs"]][:2]))
