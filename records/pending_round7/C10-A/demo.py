"""C10 demo A: the final transaction must not depend on the order in which the
co-signers' PSBTs are combined (or in which the signers sign one PSBT), also when
more than the required number of signers signed.

2-of-3 wallets (p2wsh and legacy p2sh), one input, all three co-signers sign.
Exit 0 = property holds, non-zero = violated.
"""
import sys
from io import BytesIO

from buidl.hd import HDPrivateKey
from buidl.psbt import PSBT, NamedHDPublicKey
from buidl.script import P2WPKHScriptPubKey, RedeemScript, WitnessScript
from buidl.tx import Tx, TxIn, TxOut

NETWORK = "testnet"
PATH = "m/45'/0/0"
M = 2

signers = [
    HDPrivateKey.from_seed(bytes([i + 1]) * 32, network=NETWORK) for i in range(3)
]
named = [NamedHDPublicKey.from_hd_priv(hd, PATH) for hd in signers]
# BIP67 order of the public keys in the script
named.sort(key=lambda n: n.sec())
order = {n.root_fingerprint: i for i, n in enumerate(named)}
signers.sort(key=lambda hd: order[hd.fingerprint()])
secs = [n.sec() for n in named]
commands = [0x50 + M, *secs, 0x50 + len(secs), 174]


def wallet(kind):
    """script_pubkey of the wallet and the lookups PSBT.update wants"""
    pubkey_lookup = {n.sec(): n for n in named}
    if kind == "p2wsh":
        witness_script = WitnessScript(commands)
        return (
            witness_script.script_pubkey(),
            pubkey_lookup,
            {},
            {witness_script.sha256(): witness_script},
        )
    else:
        redeem_script = RedeemScript(commands)
        return (
            redeem_script.script_pubkey(),
            pubkey_lookup,
            {redeem_script.hash160(): redeem_script},
            {},
        )


def unsigned_psbt(kind):
    script_pubkey, pubkey_lookup, redeem_lookup, witness_lookup = wallet(kind)
    # the transaction that funded the wallet
    prev_tx = Tx(
        1,
        [TxIn(b"\x11" * 32, 0)],
        [TxOut(1000000, script_pubkey)],
        0,
        network=NETWORK,
    )
    tx_obj = Tx(
        2,
        [TxIn(prev_tx.hash(), 0)],
        [TxOut(990000, P2WPKHScriptPubKey(b"\x22" * 20))],
        0,
        network=NETWORK,
    )
    psbt = PSBT.create(tx_obj)
    psbt.update(
        {prev_tx.hash(): prev_tx}, pubkey_lookup, redeem_lookup, witness_lookup
    )
    return psbt.serialize()


def check(kind):
    raw = unsigned_psbt(kind)
    # every co-signer signs its own copy of the PSBT
    signed = []
    for hd_priv in signers:
        psbt = PSBT.parse(BytesIO(raw), network=NETWORK)
        assert psbt.sign(hd_priv)
        signed.append(psbt.serialize())
    results = {}
    for name, sequence in (("0,1,2", (0, 1, 2)), ("2,1,0", (2, 1, 0))):
        combined = PSBT.parse(BytesIO(raw), network=NETWORK)
        for index in sequence:
            combined.combine(PSBT.parse(BytesIO(signed[index]), network=NETWORK))
        combined_bytes = combined.serialize()
        combined.finalize()
        final = combined.final_tx()
        assert final.verify()
        results[name] = (combined_bytes, combined.serialize(), final.serialize())
    a, b = results["0,1,2"], results["2,1,0"]
    ok = True
    if a[0] != b[0]:
        print(f"{kind}: combined PSBT depends on the combine order")
        ok = False
    if a[1] != b[1]:
        print(f"{kind}: finalized PSBT depends on the combine order")
        ok = False
    if a[2] != b[2]:
        print(f"{kind}: final transaction depends on the combine order")
        print("  ", a[2].hex())
        print("  ", b[2].hex())
        ok = False
    # one PSBT, signed by the co-signers one after the other
    finals = []
    for sequence in ((0, 1, 2), (2, 0, 1)):
        psbt = PSBT.parse(BytesIO(raw), network=NETWORK)
        for index in sequence:
            assert psbt.sign(signers[index])
        psbt.finalize()
        finals.append(psbt.final_tx().serialize())
    if finals[0] != finals[1]:
        print(f"{kind}: final transaction depends on the signing order")
        ok = False
    if finals[0] != a[2]:
        print(f"{kind}: sign-in-place and combine give different transactions")
        ok = False
    return ok


if __name__ == "__main__":
    outcome = [check(kind) for kind in ("p2wsh", "p2sh")]
    if not all(outcome):
        sys.exit(1)
    print("ok")
